#!/venv/bin/python
"""Regenerate DESIGN.md section 9.4c (third seeded round) from seeded/RESULTS.md: the prose lives here, the table is read from the results."""
import pathlib
import re

V = pathlib.Path(__file__).resolve().parent.parent
rows = []
for line in (V / "seeded" / "RESULTS.md").read_text().splitlines():
    m = re.match(r"\| (C\d\dc-\d) \| (C\d\d) \| ([a-z-]+) \| ([^|]*) \| ([^|]*) \| ([^|]*) \| `?(.*?)`? \|$", line)
    if m:
        sid, prop, verdict, fired, errs, what, diag = (x.strip() for x in m.groups())
        rule = re.search(r"\b(C\d\d\.R\w+)\b", diag)
        rows.append((sid, what[:120].replace("|", "/"), verdict, fired, rule.group(1) if rule else "-"))
allrows = [l for l in (V / "seeded" / "RESULTS.md").read_text().splitlines() if re.match(r"\| C\d\d[bc]?-\d \|", l)]
n_all = len(allrows)
n_own = sum(1 for l in allrows if "| caught |" in l)
n_other = sum(1 for l in allrows if "| caught-by-other |" in l)
n_missed = n_all - n_own - n_other
own3 = sum(1 for r in rows if r[2] == "caught")
oth3 = sum(1 for r in rows if r[2] == "caught-by-other")

INTRO = f"""### 9.4c Third round: defects outside the anchored functions (helpers, constructors, registries, two-site changes)

Twenty more fresh sub-agents (same isolation; prompt extended with: "the functions named in the property's mechanism list have been
studied closely - put the defect somewhere else: a helper they call, a constructor, a registry, a property, a module-level table, a
sibling class; at least one of three must need two cooperating sites or a multi-step call history") produced 60 candidates, all
re-confirmed (`seeded/C??c-k/`). First run against the checks as they stood after §9.4b: 21 reported by their own check, 24 only by
another property's check, 4 stopped their own check with an analysis error, **11 missed by every check** (C02c-3, C03c-1, C05c-2, C05c-3,
C07c-1, C10c-2, C12c-1, C12c-2, C14c-1, C19c-1, C19c-3). After the work below: of all **{n_all} seeds {n_own} are reported by the check of their
own property, {n_other} by the check of the property they naturally belong to, {n_missed} are missed** (third round alone: {own3} own,
{oth3} other). The seeds reported only by another property's check are in-place mutations of buffers or caller tensors seeded under
C01/C03/C04/C05/C15 (C16.R1), changes inside `bisect` seeded under C04/C05 (C19.R1, C06.R2b), strike forwarding of the Black-Scholes
modules seeded under C09/C20 (C07.R5, C08.R3), `BasePrimary.to()` ordering seeded under C11 (C17.R2), a detached `prev_hedge` hook and a
memoised listed price seeded under C15/C17 (C14.R2, C16.R3/R7) and the cost pass of `compute_portfolio` seeded under C06 (C01.R4).

| seed | change (one line, from the agent's meta.json) | verdict | checks that report it | first rule |
|---|---|---|---|---|
"""

CHANGES = """
What the third round changed:

* **Summaries put to the test: call histories** (C12c-1, C12c-2, C01c-3, C03c-2, C07c-2, C16c-1 and the recurring "memoised listed
  price"). Every analysis so far read `ul()`, `underliers()`, `clauses()`, attribute access to an underlier, `register_underlier`,
  `register_buffer`, `spot`, `get_buffer` through five-line summaries in the interpreter - the bodies of these methods were inspected by
  syntactic rules at best. `pfsa/registry.py` removes the summaries in a second interpreter (`faithful_registry`: the class's own
  `__setattr__`/`__getattr__` are interpreted, `hasattr` is `getattr` without the AttributeError, an out-of-range index is a raising path)
  and interprets short *drivers* - the calls a user makes between creating an object and reading it - on every concrete derivative and
  primary class; what the object hands out afterwards is compared with what the history put in. Scripted histories (clauses survive
  list/delist; re-listing with cost 0.0; re-binding and re-registering an underlier; a second underlier; the clause fold; buffer registry
  of the primaries; simulate twice; re-configure and simulate again; re-simulate the underlier directly and through the derivative and
  read payoff / moneyness / running maximum / time to maturity) are obligations of C01.R8h, C03.R1h, C07.R7h, C11.R10, C12.R9, C13.R7,
  C16.R7, C17.R8. On top, **every sequence of at most 2 (thorough: 3 for C12, 4 for C16 = 73 320 histories) operations** from an alphabet
  of eleven (`add_clause` x2, `list` x2, `delist`, `register_underlier` same/new name, `underlier = ...`, `ul()`, `payoff()`, `spot`) is
  interpreted on each of the six derivative classes with three simulated `BrownianStock` underliers and judged against a twenty-line
  reference model of the registries (C12.R9x, C16.R7x); failures are reduced to the minimal failing histories (`[list(p1,k) ; spot ;
  list(p2,0)]` for the memoised price). A *correct* cache - one every writer invalidates - passes (self-test variant
  `s-c12-ul-cache-always-invalidated`), which the store-based purity rules cannot tell from a stale one. A history that raises on every
  path is a finding (all histories are documented use of the API).
* **Working precision as dtype provenance** (C03c-1, C07c-1, C05c-2, C06c-2, C09c-3, C19c-3): `dtypes.Provenance` records a value that is
  *computed* in an unrelated float dtype and converted to the data's dtype afterwards (`(arange(n) * dt).to(spot)` - an integer grid
  times a Python float is a default-dtype tensor), `torch.as_tensor(x, device=...)` and `torch.tensor(float(n))` of Python numbers are
  logged like the bare forms, and `closed_form_precision_rule` additionally requires the result of a closed form to be in the dtype of
  its tensor inputs (`ncdf(x.float()).to(x.dtype)`, `as_tensor(x, dtype=torch.get_default_dtype())`). New obligations: C03.R1p (both
  branches of every feature), C07.R7d (the state a module takes from its derivative), C05.R9 / C06.R6 (targets and levels of the
  criteria), C09.R5, C19.R8 (the function the bisection inverts, and the bracket itself).
* **The option mixin on its own account** (C02c-3): `max_log_moneyness()` is not read by any feature but is the default parameter of the
  path-dependent Black-Scholes modules, i.e. the price of a listed lookback or American binary: C02.R1 now has window obligations for
  the five mixin methods in both modes, not only for the features built on them.
* **Forwarding** (C10c-2, C10c-3, C19c-1): C10.R10 / C13.R1i - `simulate()` hands the generator the caller's initial state on every
  path, in the tuple and in the scalar form (`init_state or default` is a live decision on the truthiness of a number), and every
  constructor parameter the generator has a parameter of the same name for; C19.R4 - a module created from a derivative resolves in
  `implied_volatility()` either nothing or exactly what `price()` resolves (the running maximum taken from `log_moneyness()` instead of
  `max_log_moneyness()` inverts the price of another state).
* **Dims on every branch** (C05c-3): C05.R4 checks the reduction axis of the min / max branches of `value_at_risk` like R3 does for the
  expected shortfall (`if dim` treats axis 0 as "no axis").
* **Deep copies** (C14c-1): `copy.deepcopy` used to be the identity in the interpreter; a deep-copied object now owns renamed modules and
  tensors, and C14.R1 reports a loss that evaluates the copy of a module instead of the module (`ModuleOutput.of`).
* **Grids** (C13c-2, C13c-1): `linspace(a, b, n)[k]` is modelled next to `arange(n)[k]`; C13.R8 = the time argument of a time-dependent
  coefficient is `i*dt` (the local-volatility generator); `int(x / dt)` and `x // dt` are rounding hazards like `floor(x / dt)`.
* **Constructors everywhere** (not asked for by a seed, found while looking for unverified assumptions): every rule builds its symbolic
  hedger / criterion / module from attributes. `Hedger.__init__` keeps model, criterion and inputs in the given order (C03.R3a); the six
  criteria (C05.R10), `Clamp`, `LeakyClamp`, `SVIVariance`, `WhalleyWilmott` (C20.R7) and the four Black-Scholes modules (C07.R8, C08.R7)
  store what they are given.
* Engine: `x or default` / `x and f(x)` select an operand by a decision on the truthiness of a number or optional value; `callable`;
  `zip` of a symbolic with concrete sequences; tuple keys of dicts compare by value (a memo keyed by a tuple was always missed); the
  extended reals have `maximum` / `minimum` (C18c-1: the pfhedge `clamp` inside `WhalleyWilmott.forward` is `0 * inf` for an infinite
  band); printing a term has a character budget (a term with shared sub-terms is a DAG and printed exponentially long); C06.R5 compares
  price and loss up to `x - 0.0 = x` (it fired for a wrong reason on C06c-2).

Observations from the agents that are not claimed: `register_underlier(name, u)` called directly (not through attribute assignment)
leaves an instance attribute set earlier by `d.name = u0` pointing at `u0` while the registry holds `u` - the attribute shadows
`__getattr__`; the histories above re-bind through one route at a time and do not mix them. `UnderlierLogSpot` is not in the `FEATURES`
table, so its behaviour is not reachable by name (random-sample survivor of run #2: its `log=True` default flipped, no property speaks
about it).

"""


INTRO4 = """### 9.4d Fourth round: by file group instead of by property (the files earlier rounds hardly touched)

The first three rounds gave each agent one property; 58 of their 181 patches landed in `nn/functional.py`, 51 in `hedger.py`,
`derivative/base.py` and `bisect.py`, and 29 of the 67 source files were never touched. The fourth round turns the assignment round: ten fresh
sub-agents (same isolation) each received all twenty property statements and one *group of files* (feature base classes and the name
registry; `instruments/base.py` and the concrete derivative classes; `MultiLayerPerceptron` / `Naked` / lazy helpers / `ensemble_mean`; the
random engines, `cast_state`, the Kou generator; the `BlackScholes` factory, `_base.py` and the binary / lookback modules; `_utils/parse.py`,
`hook.py`, `autogreek.py`; the primary instruments other than `BrownianStock` / `VasicekRate`; `svi` / `clamp` / `ww` and the criterion
plumbing; the less used features and the containers; the hedger's constructor / `price` / `compute_portfolio` and the derivative
registries) and had to break any property through a change confined to that group, naming the property. 30 candidates, all re-confirmed
(`seeded/Dnn-k/`). First run against the checks as they stood after §9.4c (re-measured with that version of the checker): 18 reported by the check of the
property the agent named, 9 only by another property's check (D01-2, D01-3, D02-3, D03-2, D03-3, D04-3, D08-1, D08-2, D10-3), **3 missed
by every check** (D02-2 the re-bound `max_log_moneyness`, D03-1 the detaching `MultiLayerPerceptron.forward`, D06-2 the default-dtype
`parse_spot`). After the work below all 30 are reported by their own check.

| seed | change (one line, from the agent's meta.json) | verdict | checks that report it | first rule |
|---|---|---|---|---|
"""

CHANGES4 = """
What the fourth round changed - almost every miss was an *assumption the analyser made about code it did not read*:

* **The hedger the rules analyse is the hedger the constructor builds** (D01-2, D10-3). `world.hedger` used to assemble a symbolic `Hedger`
  by hand (model, `FeatureList`, criterion, the documented hook). It now interprets the real `Hedger.__init__` on the feature objects, so
  a `get_feature` that deep-copies `Feature` instances, inputs stored in another order, or another hook are part of every analysis;
  `world.registered_hooks` reads the installed forward hooks off the constructor, and C14.R2 drives *those* (a plain function, a lambda or
  a closure alike) instead of the function it expected (`_save_prev_hedge` wrapping `save_prev_output(..., output.detach())`).
* **Built-in models are code, too** (D03-1, D03-3 and, found while looking, time mixing): the hedging model had been an opaque callable
  everywhere. `purity.builtin_model_runs` interprets the `forward` of every class of `pfhedge.nn.modules` that has a pfhedge-level forward
  (`MultiLayerPerceptron` and `Naked` included) on a generic instance: C14.R5m no graph-breaking construct between input and output
  (`super().forward(input.detach())`), C16.R3m nothing stored on the module (`Naked` memoising its zeros), C02.R4t / C03.R2m no operator
  along the time or path axis (C02 admits a running sum / extremum that only looks back, C03 does not: the step-by-step evaluation hands
  the model one step at a time).
* **Shared feature objects** (D01-3, and D01-1): hedger-level call histories (C16.R8, C03.R3h): for every ordered pair of computing
  methods `h.m2(d2)` after `h.m1(d1)` is a function of `d2` only; two hedgers handed the same feature objects - bare, and inside one
  `ModuleOutput`, which binds its inputs in place - compute functions of their own model and their own previous hedge.
* **Order independence of readers** (D02-3): after one simulation every state reader evaluated *alone* on a fresh derivative returns the
  same term as in a sequence where the other readers ran first (a running-maximum cache keyed on the price tensor but not on the `log`
  flag serves `max_log_moneyness` the value of `max_moneyness`).
* **The re-binding idiom** (D02-2): `_set_attr_and_docstring(Cls, "name", Base.method)` re-binds a class attribute at import time; the
  front end already followed it, the rules did not ask what it binds. 78 of 78 such statements on the pinned tree bind a method under its
  own name - now an obligation each (C07.R5, C08.R7, C12.R2, C17.R4), and the override rule reports a base-class method bound under
  another name (`"max_log_moneyness", OptionMixin.log_moneyness`).
* **dtype provenance past the instruments** (D03-2, D06-2, D08-1): C17.R6 now also covers `parse_spot` / `parse_volatility` /
  `parse_time_to_maturity`, `ensemble_mean` (both branches), `Hedger.compute_portfolio / compute_pl / compute_loss / price` with a symbolic
  `n_times`, and `forward` / `cash` of every criterion; `.item()` / `.tolist()` leave the tensor world (a bracket made of Python floats is
  re-created in the default dtype), comprehension lists of unknown length have the provenance of their element.
* **Engines honour the dtype request** (D04-3): C11.R3e probes the three engine entry points with a dtype and with none (the global
  default, never a dtype fixed inside the engine: drawing in float64 and casting back with `.to(dtype=None)` returns float64).
* **The module's own width** (D08-2): C18.R3m evaluates `WhalleyWilmott.width` in the extended reals with the module's gamma an arbitrary
  real (the functional `ww_width` had been covered, an inlined `gamma.pow(2/3)` in the module had not).
* **Every sequence of casts** (not asked for by a seed): C17 is stated over "any sequence of to()/float()/double()/half()/simulate()/
  register_buffer calls", so `registry.cast_histories_rule` interprets every sequence of at most 2 (thorough: 3; 13 104 sequences on the
  eight primary classes, from a new and from a simulated instrument) such calls with `_parse_to` modelled, and compares the declared
  dtype / device, the buffer names and each buffer's effective cast with a reference model (C17.R8x); minimal failing sequence for a
  `to()` that re-registers before it updates the declaration: `[<simulated> ; double() ; float()]`.
* Smaller: `Naked` may return any zero factory (a rule that demanded `new_zeros` literally was a false alarm in waiting); `yield from`,
  `dict.update` stores, `callable`; C13.R3 counts `int(x / dt)` and `x // dt` as rounding hazards; dtype provenance lets exact constants and
  integer-valued arithmetic be converted after the fact (`torch.zeros(n).to(spot)` is not a loss of precision).

Observations from the agents that are not claimed: `BSLookbackOption.delta / gamma` (automatic Greeks) return NaN at zero time to maturity
or zero volatility on the pinned tree (D06 agent; C18 lists the lookback Greeks as not decided); a Python-float strike that float32 cannot
represent costs 1e-7 in float64 automatic Greeks through `parse_spot` (D06 agent, same observation as in round 2); `register_underlier`
called directly leaves an earlier instance attribute of the same name pointing at the old underlier.

"""


INTRO5 = """### 9.4e Fifth round: by cross-cutting theme

Ten more fresh sub-agents, again with all twenty properties, each with one *theme* instead of a property or a file group: double
precision with a float32 default dtype; argument forwarding between layers; shapes and axes (trailing dimensions, several instruments,
N=1, T=1/2); edge values (zero cost / volatility / time, ties, p = k/N, on-grid start times); orientation and sign (put / call, up / down,
crossing bounds); import-time wiring (tables, re-exports, aliases, decorators, doc helpers that set attributes); validation and guards
(order of check and state change, merged conditions); random numbers (which draw feeds which factor, antithetic / Sobol plumbing);
autograd plumbing (detach, grad-mode regions, zero_grad / step order, train / eval); time indexing. Anywhere in the package, three
different properties and files per agent. 30 candidates, all re-confirmed (`seeded/Enn-k/`). Several re-discover defects of earlier rounds
from another angle (the single-feature shortcut of `FeatureList.get`, `all(cost)`, `if dim`, the falsy initial state, the float32 time
grid, `floor(start / dt)`, the Kou compensator) - those were reported at once. First run against the checks as they stood after §9.4d:
(re-measured with that version of the checker) 24 reported by the check of the property the agent named, 2 only by another property's check
(E01-1, E10-3), 1 stopped its own check with an analysis error (E06-2), **3 missed by every check** (E01-3 the float32 bracket of the implied
volatility, E06-3 the `cached_property`, E07-2 the merged guard). After the work below all 30 are reported by the check of the property the agent named.

| seed | change (one line, from the agent's meta.json) | verdict | checks that report it | first rule |
|---|---|---|---|---|
"""

CHANGES5 = """
What the fifth round changed:

* **`functools.cached_property`** (E06-3) was an unknown decorator to the front end (the attribute read produced a bound method). It is now a
  property whose first value is stored in the instance dict on access - which is exactly what the store-based purity rules look for; the
  derived-series rule C17.R7 reads `spot` / `volatility` / `variance` through attribute access instead of calling the property body.
* **Partial arguments** (E07-2): C07.R5p - for every Black-Scholes module created from a derivative, every state-taking method defined on
  it and every single parameter given explicitly, the closed form receives the caller's tensor (or a re-parameterisation of it that does not
  mention the derivative) for that parameter; a merged guard `if a is None or b is None:` overwrites an explicit `a`.
* **The bracket of the implied volatility** (E01-3): C19.R8 - the ends `find_implied_volatility` hands to `bisect` have the dtype
  provenance of the price (`torch.as_tensor(bound, device=...)` of a Python number has not).
* **The grid under its own property** (E01-1): the float32 time grid had been an obligation of C03.R1p / C07.R7d; C13.R4p states it where it
  belongs.
* **The whole previous hedge** (E10-3): C03.R3b - `PrevHedge.get` returns the stored buffer itself (value-preserving wrappers aside), not an
  index into it (`[..., [-1]]` is the last *instrument*).
* **The module factory** (E06-2): C16.R3f - `BlackScholes(derivative)` for each of the four option types leaves nothing on the derivative or
  the factory (a module kept in `derivative.__dict__` answers later requests with the strike and call flag of the first); the rule runs
  before the in-place coverage scan, which would otherwise stop the check with an analysis error at the new store.

Observations from the agents that are not claimed: `cast_state` sends a Python-float initial state through float32, so the first column of
a float64 Vasicek simulation is float32-accurate (E04 agent; same observation as in rounds 2 and 4); `generate_brownian` driven by
`RandnSobolBoxMuller` has a terminal standard deviation of 0.03 instead of 0.2 (E08 agent: this is known finding KF5).

"""


INTRO6 = """### 9.4f Sixth round: behaviour-preserving refactorings (the false-alarm bench)

The checks must never raise an alarm on code where the properties hold, and until here that direction had been probed only by my own
behaviour-preserving variants (§7, `selftest/silent_all.py`). Ten fresh sub-agents (same isolation) each received a file group and had to
write four realistic refactorings that leave the behaviour *exactly* unchanged - first batch (R01-R10): extract / inline a helper, rename
locals, loops <-> comprehensions, equivalent torch API, keyword for positional arguments, guard clauses, de Morgan, hoisted sub-expressions, a
method pulled up to a base class, a helper moved to another module; second batch (R11-R20, "structurally bold"): long functions split into
private functions passing named tuples or dataclasses, near-duplicates merged into a parameterised function, methods moved into mixins,
if/elif dispatch replaced by tables of callables, `functools.partial` / `reduce` / `operator.methodcaller`, generators, `for`/`break` for
`while`, template methods - each with a demo that prints a digest over the bytes of everything it computes (values,
dtypes, exception messages, RNG state, gradients) which has to be identical on the clean and on the refactored tree, and with the pinned suite
at 933/933. NREF candidates, re-confirmed by `tools/refactor.py verify` (`refactorings/Rnn-k/`). `tools/refactor.py check` runs every check
on every refactored tree; any exit code other than 0 is a false alarm (1) or a brittle analysis (2). First run: FIRSTREF. After the work
below all are silent in all twenty checks (`refactorings/RESULTS.md`).

| refactoring | verdict | checks that do not exit 0 | what the change is |
|---|---|---|---|
"""

CHANGES6 = """
What the refactoring round changed (none of these touched a verdict on a seeded defect - the full bench was re-run afterwards):

* **R03-2** (`compute_hedge`: the step-by-step loop as a list comprehension): the interpreter evaluated a comprehension body once for a generic
  element - without the loop machinery that carries state from one iteration to the next (the forward hook storing the previous output).
  A list comprehension over a range of unknown length is now desugared into the loop it abbreviates.
* **R04-4** (`_start_index` inlined into `payoff_fn`) and **R06-3** (`_generate_1d` inlined into `__call__`): two rules were anchored at a
  private helper and stopped with "anchor vanished". The forward-start index is now read off the call `payoff_fn` makes to the payoff
  functional, and the Sobol-engine rule judges what `engine(N, T, dtype=, device=)` returns, whatever helpers the class splits the work into
  (`rand.unbind(dim=1)` for `rand[:, 0], rand[:, 1]`, `SobolEngine(dimension=2)` for `SobolEngine(2)` included; `f(*t)` with a symbolic
  sequence fills the callee's open positional parameters).
* **R05-4** (dtype validation of `to()` moved into a module-level helper with an early return): C17.R2 looked for an `if ...: raise` guard
  inside `to()`; it now accepts any branch decided on `is_floating_point` whose other side raises before any state is changed.
* **R10-3** (a dict comprehension) and **R10-4** (`bisect(fn, target=..., lower=..., upper=...)` by keyword): unsupported expression; a rule
  that read call arguments by position. Call events now carry the arguments *by parameter name* (`bound`), and the rule uses that.
* **The second batch is a test of how much Python the analyser reads**, and it read too little: class-based `typing.NamedTuple` (fields,
  defaults, methods, unpacking, indexing, `_asdict`, `_replace`), `@dataclass`, `functools.partial` / `reduce`, `operator.add` / `methodcaller` /
  `itemgetter`, `itertools.count`, `break` / `continue` / `for ... else`, `bool()`, `object()` sentinels at module level, `staticmethod(f)` as a
  class attribute, a bound tensor method taken as a value, `yield from`, dict / set comprehensions were all unsupported (analysis errors), and
  a named tuple re-bound in a loop body was not carried from one iteration to the next (R19-2: `bisect` with a `_Bracket(lower, upper)` - after
  the fix the loop-invariant rule C19.R1 discharges on the restructured loop). The false alarms were rules tied to a call shape rather than to
  a value: C08.R5 wanted the gamma relation called *directly* (now: anywhere in the dynamic extent, arguments by name), C19.R4 wanted
  `find_implied_volatility` called from a method named `implied_volatility` (now: from it or a helper it delegates to), C01.R4 was anchored at
  the private `Hedger._get_hedge` (now: the default hedge is read off the prices `compute_pl` hands to `pl()`), C16.R4 at `FeatureList.of`
  (now: whatever `of` the class resolves to), C17.R2 parsed branch conditions of `to()` (now: four scenarios on the faithful interpreter - a
  dtype given, a device given, nothing given, a rejected dtype - judged by the declaration and the buffer they leave), C16's in-place coverage
  scan recognised registry stores by the `self._` prefix (now: the stores the call histories reach).
* **Mechanical rewrites of the whole package** (`selftest/refactor_gen.py`, each confirmed by the pinned suite before it is used): every
  positional argument of a call to a pfhedge function passed by keyword (270 sites), every `return <expr>` through a local (271), conditional
  expressions as if/else (15), every local variable renamed (388), method form to function form (`x.exp()` -> `torch.exp(x)`, 94), list
  comprehensions <-> appending loops. They found what single refactorings cannot: the re-binding rule and the front end demanded the
  positional form of `_set_attr_and_docstring`, a summary unpacked its arguments positionally, C15's protocol trace recognised the per-epoch
  record by the local name `history`, C16's coverage scan exempted counters by the names `n_iter`, `out`, ... - name lists are replaced by
  structural criteria (a local only ever bound to Python numbers or strings). All seven rewrites are silent in all twenty checks now.

"""


INTRO7 = """### 9.4g Seventh round: refactorings that carry one defect, and their repaired twins

The two preceding rounds met in this one. Ten fresh sub-agents (same isolation, all twenty properties, one file group each) wrote three
"refactor: ..." commits each - long functions split into private functions passing tuples / named tuples, near-duplicates merged, methods
moved into mixins or base classes, if/elif chains replaced by tables of callables, `functools.partial` / `reduce` / `methodcaller`, a `while`
rewritten as `for`/`break` over a generator, decorators, template methods with per-class hooks, memoised tables - in which exactly ONE detail
came out differently (an off-by-one in a moved slice, a flipped polarity, a default that changed when two functions were merged, an argument
lost or swapped in the new helper's signature, a cast that moved, a cache the new structure introduced, the order of two statements, a
subclass that no longer gets what the base class gave it). 30 candidates, all re-confirmed (`seeded/Fnn-k/`: suite 933/933, demo fails with
the patch). Then ten more sub-agents received one agent's three patches each and wrote the REPAIRED refactoring - the restructuring kept in
full, the one detail corrected - with a digest demo that is identical on the clean and on the repaired tree (`refactorings/Gnn-k/`,
re-confirmed by `tools/refactor.py verify`). A check that reports the defect only because it does not recognise the new structure would also
report the repaired twin; this round measures both directions on the same structure.

First run of the 30 defective patches against the checks as they stood after §9.4f: FIRST7

| seed | change (one line, from the agent's meta.json) | verdict | checks that report it | first rule |
|---|---|---|---|---|
"""

CHANGES7 = """
The repaired twins against all twenty checks (`tools/refactor.py check`): TWINS7

| repaired refactoring | verdict | checks that do not exit 0 | what the change is |
|---|---|---|---|
TWINTABLE7
What the seventh round changed:

* **Decorators of the repository's own were ignored** (F02-2: the closed forms of the American binary wrapped by a decorator that applies the
  "barrier touched" mask). The interpreter followed the undecorated function, so the check reported the patch - and would have reported its
  repaired twin just the same. A decorator that is not one of the known pass-through ones (`property`, `staticmethod`, `abstractmethod`,
  `torch.enable_grad()`, ...) is now evaluated: the name denotes what the decorator returned (`functools.wraps` included). The verdict on F02-2
  changed from seven findings to the three that concern the mask at `max_log_moneyness == 0`.
* **`functools.lru_cache`** (F08-3, the only seed no check reported; also F04-2's hand-written memo): a memoised function is now followed with its
  table (keyed by identity for objects, by value for plain arguments; `cache_clear`), and C07.R5 has a call history 'rebuild' - build the
  module, change `strike` / `call` on the same derivative, build again: the second module carries the current contract.
* **More Python**: `try` / `except` / `else` / `finally` over the exceptions the interpreter models (a missing key of a concrete dict is a
  `KeyError`), `next(<generator expression>)` consumed lazily (the conditions after the first hit are not evaluated), generators of the shape
  `setup; while True: ...; yield v; ...` as objects that run one step per `next()` (F03-2: the body of such a generator runs where it is
  consumed - outside the `set_grad_enabled` block it was created in; C14.R4 reports exactly that), `for x in islice(gen, n)` with a first
  iteration run on its own and the rest summarised, `for ... else` on loops of unknown length (a raise-only `else` is a guard; anything
  else is an analysis error instead of being skipped silently), `break` on a symbolic condition in a concrete loop (both outcomes), a
  generator whose body has effects and which is stored before it is consumed is an analysis error (its body would be run at the wrong
  time), `Record(*t, field=v)` with a symbolic sequence, unbound `Class.method(obj, ...)`, generator-based context managers
  (`contextlib.contextmanager`: the manager's body is run at the `with` statement and its `yield` runs the block, so whatever encloses the
  yield - `torch.set_grad_enabled(...)`, `try`/`finally` - encloses the block).
* **Rules judged by outcome instead of by call shape**: C17.R5 (a derivative's `to()`) demanded one call of `BasePrimary.to` per underlier
  with the caller's arguments - a template method with an `_apply_to` hook (F10-1) makes none; it is now a history on real objects (a
  derivative over two underliers, three request forms: both underliers declare the requested dtype / device afterwards, `self` is
  returned). C17's anchors `to` / `_parse_to` / `register_buffer`, and six more class-method anchors in C02, C06, C12, C13, are resolved
  through the MRO (a method pulled up into a base class is still found). C20.R3 demanded that `WhalleyWilmott.forward` *calls* `ww_width`;
  the band is now compared with the documented formula itself. C06.R3 sees through value-preserving wrappers (`stack.to(stack.dtype)`).
  C05.R8 counted the global `max` of a convergence test as a reduction along the wrong axis once that test became a path decision; a branch
  condition is one truth value for the whole sample, so only the element COUNT it uses is held to the requested axis. C03.R2 accepts
  `torch.stack` of `(N, H)` columns along a new last axis for `cat` of `(N, 1, H)` columns + transpose; the shape engine models `reshape` /
  `view`, and C03.R4 reports a reshape to *permuted* extents (F03-3: `(N, T, H)` viewed as `(N, H, T)` has the right shape and the wrong
  entries); both branches of `compute_hedge` are now run with the same two hedging instruments, so sizes taken from `len(hedge)` and sizes
  taken from the model output agree. C19.R4 judges the search that is actually run - on every path with a search loop the exit test compares
  the bracket width with the caller's precision, the bracket starts at the caller's bounds, the budget is the caller's `max_iter` - whether
  it is reached through `bisect`, a private `_search` or a generator of brackets (F09-2, F08-1, F10-3).
* **What only the twins showed** - rules that reported the defective patch for a reason that its repaired twin shares. C07.R5 / C08.R3 read
  the closed form's arguments off the keyword dict of the call (G08-2 forwards them by position through a `partial`: "log_moneyness not
  forwarded"; the seed F08-2 had been reported for that reason, not for the missing strike) - they use the arguments by parameter name now.
  C11.R5 wanted the path generator called from `simulate` itself (G05-2/3: from a hook of a template method); now: one call INTO the
  generator package per simulation. `torch.full_like(p, 0.0)` had the unit 1 where `zeros_like(p)` fits any unit (G02-2), and the
  extended-real domain did not know it.
* **A correctly keyed memo is not state** (G04-2 / F04-2: the time grid remembered on the derivative, keyed by `(n_steps, dt)` in the seed and
  by `(n_steps, dt, spot.dtype, spot.device)` in the twin). The purity rules (C02.R6, C12.R7, C16.R3: "nothing is stored on a pre-existing
  object") are a sufficient condition, and the hit path returned "whatever was stored" - five checks reported the twin. `Interp.explore` now
  recognises the validated-memo idiom by its proof obligation, not by its spelling: a 2-tuple `(key, value)` stored on an object, where
  `value` is a function of the components of `key` alone (a tensor that only donates dtype / device to `.to()` / `new_*` / `*_like` counts as
  those two attributes) and every path that uses the stored pair compares its first component with that same key. Then hit = miss: the hit
  paths are dropped and the store is labelled `memo_store`. The seed's key lacks dtype and device, its value depends on them through
  `.to(spot)`: not folded, reported as before (C17.R6, C16.R3, C12.R7, C02.R6).
* **Functions as values in loops**: `reduce(_chain, self.clauses(), _no_clause)` (G04-1 / F04-1) builds a function by composing closures over a
  sequence of unknown length. The loop machinery carried tensors only and silently kept the closure of the generic iteration: it now fails
  closed (analysis error) when a function-valued variable is re-bound in such a loop, and a fold of functions is modelled by what it
  returns when it is called - `v_0 = f0(a)`, `v_k = compose(<function returning v_{k-1}>, x_k)(a)`, provided each composed function calls
  its predecessor with its own arguments - i.e. as the same value-carrying loop the `for` form gives. C12.R3 accepts the loop form (any
  number of clauses) or, failing that, the exact nesting for three registered clauses (the seed: `clause1(clause2(clause3(payoff_fn())))`);
  C01.R4 compares the payoff handed to `pl()` with what `payoff()` returns on the same derivative instead of asking for a loop in it.
  Nested instances of one inner function are no longer taken for recursion.
* **Several looping paths** (G09-2: `_n_brackets(max_iter)` distinguishes an infinite budget, clips at 0): C19.R1 judges every looping path of
  the increasing orientation instead of demanding exactly one.
* **Terms are DAGs**: a helper that turned a symbolic step count into a concrete one (F05-1) unrolled a simulation loop, and the tree walk over
  the shared sub-terms did not finish within the time limit in four checks; `walk` visits a shared node once, equality short-cuts on identity
  and cached hashes.
* **The generator-based bisection of F09-2** (`for lower, upper in islice(_brackets(...), max_iter + 1): ... break ... else: raise`, the
  decreasing case by `_negated(fn)` and `-target` instead of recursion, the bracket validated in `_as_bounds`) at first ended C19.R1-R3 in
  "cannot isolate the increasing-orientation path" - no verdict, for the defective patch and for its repaired twin alike. The three rules
  were written for the recursion and the `while` test of `bisect`; they now classify the data-dependent decisions on the way by what they
  compare (the two ends' function values = orientation, in whichever direction - R2 judges it; the initial bracket's width against the
  precision = the loop test of an iteration run on its own; `max_iter` alone = the budget; `fn(m) == target` = exact hit; anything else is an
  extra exit), take the looping path of the increasing orientation wherever it is, accept the exit test on the bracket as updated by the
  same iteration, accept for the decreasing case either the recursion or the same loop on the mirror image (lower takes the midpoint when
  `fn(m) > target`), and hold the endless loop of a generator to the bound of its consumers (`islice`). The repaired twin now discharges all
  25 obligations of C19; two mutations of it (`target` not negated; `islice` dropped) are reported by R2 and R4. C06.R2's known finding KF4
  (empty bracket for a constant sample) was tied to a guard *inside `bisect`* and silently disappeared on this structure; it is found
  wherever the search validates its bracket.

"""


def rows_for(prefix_re):
    out = []
    for line in (V / "seeded" / "RESULTS.md").read_text().splitlines():
        m = re.match(r"\| (" + prefix_re + r") \| (C\d\d) \| ([a-z-]+) \| ([^|]*) \| ([^|]*) \| ([^|]*) \| `?(.*?)`? \|$", line)
        if m:
            sid, prop, verdict, fired, errs, what, diag = (x.strip() for x in m.groups())
            rule = re.search(r"\b(C\d\d\.R\w+)\b", diag)
            out.append((sid, prop, what[:120].replace("|", "/"), verdict, fired, rule.group(1) if rule else "-"))
    return out


def main():
    table = "".join(f"| {sid} | {what} | {verdict} | {fired} | {rule} |\n" for sid, what, verdict, fired, rule in rows)
    text = INTRO + table + CHANGES
    p = V / "DESIGN.md"
    s = p.read_text()
    a = s.find("### 9.4c ")
    b = min(x for x in (s.find("### 9.4d "), s.find("### 9.5 ")) if x != -1)
    if a == -1:
        a = b
    s = s[:a] + text + s[b:]
    p.write_text(s)
    print(f"9.4c written: {len(rows)} rows; totals {n_all} seeds, {n_own} own, {n_other} other, {n_missed} missed")
    for prefix, intro, changes, tag in ((r"D\d\d-\d", INTRO4, CHANGES4, "### 9.4d "), (r"E\d\d-\d", globals().get("INTRO5"), globals().get("CHANGES5"), "### 9.4e ")):
        r_ = rows_for(prefix)
        if not r_ or intro is None:
            continue
        t_ = "".join(f"| {sid} ({prop}) | {what} | {verdict} | {fired} | {rule} |\n" for sid, prop, what, verdict, fired, rule in r_)
        s = p.read_text()
        a = s.find(tag)
        nxt = [x for x in (s.find("### 9.4e ") if tag == "### 9.4d " else s.find("### 9.4f "), s.find("### 9.5 ")) if x != -1]
        b = min(nxt)
        if a == -1:
            a = b
        p.write_text(s[:a] + intro + t_ + changes + s[b:])
        print(f"{tag.strip()} written: {len(r_)} rows")


def refactorings():
    res = V / "refactorings" / "RESULTS.md"
    if not res.exists():
        return
    rows6 = []
    for line in res.read_text().splitlines():
        m = re.match(r"\| (R\d\d-\d) \| ([A-Za-z-]+) \| ([^|]*) \| ([^|]*) \|", line)
        if m and m.group(1) < "R21":
            rows6.append(tuple(x.strip() for x in m.groups()))
    if not rows6:
        return
    first = {"R03-2": "analysis error in C02, C03, C14, C16, C17", "R04-4": "analysis error in C12, C13", "R05-4": "FALSE ALARM C17.R2", "R06-3": "analysis error in C10, C11, C16",
             "R10-3": "FALSE ALARM C02.R4 + analysis errors in C03, C07, C08, C14, C16", "R10-4": "analysis error in C06, C19",
             "R11-2": "FALSE ALARM C05.R4, C17", "R12-1": "analysis errors in 6 checks", "R12-2": "FALSE ALARM C08.R1", "R12-3": "FALSE ALARM C08.R5", "R13-2": "analysis error in C01",
             "R13-4": "FALSE ALARM C15.R2", "R14-1": "analysis error in C16", "R14-4": "FALSE ALARM C01.R4, C12", "R15-4": "analysis errors in 10 checks", "R16-2": "analysis errors in 6 checks",
             "R16-4": "FALSE ALARM C10.R1", "R17-2": "analysis errors in 6 checks", "R17-4": "analysis error in C16", "R18-2": "FALSE ALARM C07.R5", "R18-3": "FALSE ALARM C08 + analysis errors",
             "R19-2": "analysis errors in 7 checks, then FALSE ALARM C19.R1", "R20-1": "FALSE ALARM C19.R4", "R20-3": "analysis errors in 6 checks"}
    n1 = sum(1 for r in rows6 if r[0] < "R11")
    n2 = len(rows6) - n1
    f1 = sum(1 for k in first if k < "R11")
    f2 = len(first) - f1
    intro = INTRO6.replace("NREF", str(len(rows6))).replace("FIRSTREF", f"of the {n1} refactorings of the first batch {n1 - f1} were silent everywhere, 2 raised a false alarm and 4 stopped one or more "
                                                            f"checks with an analysis error; of the {n2} structurally bolder ones of the second batch only {n2 - f2} were silent everywhere, "
                                                            "9 raised a false alarm and 9 ended in analysis errors")
    t_ = "".join(f"| {rid} | {verdict}{' (first run: ' + first[rid] + ')' if rid in first else ''} | {which} | {what[:140]} |\n" for rid, verdict, which, what in rows6)
    p = V / "DESIGN.md"
    s = p.read_text()
    a = s.find("### 9.4f ")
    b = min(x for x in (s.find("### 9.4g "), s.find("### 9.5 ")) if x != -1)
    if a == -1:
        a = b
    p.write_text(s[:a] + intro + t_ + CHANGES6 + s[b:])
    print(f"### 9.4f written: {len(rows6)} rows")


FIRST7 = {   # seed -> what the first run said, where it differs from the final verdict
    "F01-2": "analysis error: next() over a generator expression",
    "F01-3": "analysis error: try / except",
    "F02-2": "reported, but because the decorator was ignored: the repaired twin would have been reported too",
    "F03-2": "own check stopped (next / generator); reported only by C19",
    "F03-3": "reported, analysis incomplete: NamedTuple(*size, ...)",
    "F05-2": "reported by C11.R5 because the generator is called from a hook: its twin shares that; the defect itself is now C11.R2i",
    "F08-2": "reported as 'arguments not forwarded' (passed by position): its twin shares that; the defect itself is 'strike is not self.strike'",
    "F08-3": "MISSED by every check",
    "F09-2": "reported by C19.R1 as 'no single search loop': the form, not the defect",
    "F10-1": "analysis error: anchor BasePrimary.to vanished",
}
TWIN_FIRST7 = {
    "G02-2": "FALSE ALARM C08.R2 (unit of full_like(p, 0.0)) + analysis error in C18",
    "G04-1": "FALSE ALARM C01.R4, C12.R3 (the fold written as composed closures)",
    "G04-2": "FALSE ALARM C02, C12, C16, C17, C19 + analysis errors in C03, C13 (a correctly keyed memo)",
    "G05-2": "FALSE ALARM C11.R5 (the generator called from a hook of simulate)",
    "G05-3": "FALSE ALARM C11.R5",
    "G08-2": "FALSE ALARM C07.R5, C08.R3 (arguments forwarded by position through a partial)",
    "G09-2": "analysis errors in C06, C19 (several paths that differ in the iteration budget only)",
}


def round7():
    r_ = rows_for(r"F\d\d-\d")
    if not r_:
        return
    t_ = "".join(f"| {sid} ({prop}) | {what} | {verdict}{' (first run: ' + FIRST7[sid] + ')' if sid in FIRST7 else ''} | {fired} | {rule} |\n" for sid, prop, what, verdict, fired, rule in r_)
    res = V / "refactorings" / "RESULTS.md"
    twins = []
    for line in res.read_text().splitlines():
        m = re.match(r"\| (G\d\d-\d) \| ([A-Za-z-]+) \| ([^|]*) \| ([^|]*) \|", line)
        if m:
            twins.append(tuple(x.strip() for x in m.groups()))
    tw = "".join(f"| {rid} | {verdict}{' (first run: ' + TWIN_FIRST7[rid] + ')' if rid in TWIN_FIRST7 else ''} | {which} | {what[:140]} |\n" for rid, verdict, which, what in twins)
    n_sil = sum(1 for t in twins if t[1] == "silent")
    intro = INTRO7.replace("FIRST7", FIRST7_TEXT)
    changes = CHANGES7.replace("TWINTABLE7\n", tw).replace("TWINS7", f"{len(twins)} confirmed twins, {n_sil} silent in all twenty checks" + (TWINS7_TEXT if twins else ""))
    p = V / "DESIGN.md"
    s = p.read_text()
    a = s.find("### 9.4g ")
    b = min(x for x in (s.find("### 9.4h "), s.find("### 9.5 ")) if x != -1)
    if a == -1:
        a = b
    p.write_text(s[:a] + intro + t_ + changes + s[b:])
    print(f"### 9.4g written: {len(r_)} seeds, {len(twins)} twins")


INTRO8 = """### 9.4h Eighth round: a third batch of refactorings (the Python the seventh round had not met)

Six more fresh sub-agents (same isolation; functional.py, hedger.py, the derivatives, the primaries, the features, the small modules and
`bisect`) wrote four behaviour-preserving refactorings each, this time required to use at least one of: a decorator of their own applied to
several functions, a context manager of their own, `try`/`except`/`else` for a look-before-you-leap test, a generator consumed lazily
(`next`, `islice`, `zip` with a range), a pipeline composed with `reduce` over a tuple of steps, a correctly keyed memo, a template method
with per-class hooks, delegation to a helper object, class-level tables driving several methods, a small private class carrying
intermediate values, helpers moved to another module. 24 candidates, all re-confirmed (`refactorings/R21-k` ... `R26-k`: suite 933/933, same
behaviour digest). First run against the checks as they stood after §9.4g: 14 silent in all twenty checks, 4 false alarms (R22-1, R22-2,
R23-1, R26-4), 6 analysis errors (R21-3, R22-3, R24-1, R25-2, R26-1, R26-2). After the work below all 24 are silent; the full benches
(271 seeded defects, 134 refactorings, 664 scripted variants) were re-run afterwards.

| refactoring | verdict | checks that do not exit 0 | what the change is |
|---|---|---|---|
"""

CHANGES8 = """
What the eighth round changed:

* **A function whose INNER function yields is not a generator** (R22-3: `fit` with a local generator `training_steps`): the test walked into
  nested definitions, `fit` itself was "drained" and returned an empty list - reported by C15 as a wrong return value. Generators are
  recognised by their own yields only. Endless generators whose yields end the passes over the loop body (`if validation: ...; yield loss`
  / `else: yield None`) are stepped one pass per `next()`; `for a, b in zip(xs, gen)` advances `gen` once per element of `xs`.
* **A decorated function called through its wrapper is ONE call of the public name** (R22-1: `compute_portfolio` decorated): the wrapper's
  call of the undecorated function had logged a second `compute_portfolio` event, and C06.R3 / C15 counted two portfolios per evaluation.
* **Generator-based context managers** (R22-2: `_grad_mode`, written with `torch.is_grad_enabled()` / `torch.set_grad_enabled(x)` as statements
  and `try: yield finally: restore`): the manager's body is run at the `with` statement and its `yield` runs the block; a `return` inside
  the block unwinds through the manager; a grad mode switched by statement opens a region that lasts until the saved mode is put back -
  the same region events a `with torch.set_grad_enabled(x):` gives, so C14.R4 / C06.R3 judge it unchanged (and report a manager that
  switches to a fixed mode).
* **`inspect.signature(init).bind(self, *args, **kwargs).arguments`** (R23-1: one decorator for the deprecated `dtype` / `device` arguments of
  five constructors): the given arguments by parameter name; without it every constructor "raised DeprecationWarning on every path".
* **Exceptions as values** (R24-1: a generator of validation errors, `error = next(errors, None); if error is not None: raise error`),
  `next` on a drained pure generator, methods taken off `Tensor` (`Tensor.cummax(x, dim)` in a table, R25-2), `next(v for v in gen if
  cond)` over a generator object as the loop it abbreviates (R26-2: `bisect` as `next(upper for lower, upper in _halvings(...) if not
  wide)` - C19 discharges all its obligations on it).
* **Rules**: C20.R2 ("every stored option is read") scanned for `self.<name>` in the class's own methods; options read by name through a
  base-class table (R26-4) are now decided on the interpreted `forward` (the option's value occurs in the result or in a call). C05.R5
  accepts any repository callable as the function handed to `bisect` (R21-3: a bound method of a named tuple). An event filter crashed on
  events logged outside any function (R26-1).

"""


INTRO9 = """### 9.4i Ninth round: twelve more defective refactorings, in the idioms of the eighth round

Four more sub-agents (hedger.py; the instruments; features and the Black-Scholes modules; functional.py, the criteria, `ww`, `bisect`) wrote
three refactorings each that carry one defect, restricted to the idioms of §9.4h (decorators, context managers, try/except/else, lazily
consumed generators, `reduce` pipelines, memos, template methods, helper objects, class-level tables). 12 candidates, all re-confirmed
(`seeded/Hnn-k/`). First run against the checks as they stood after §9.4h: 8 reported by the check of the property the agent named, 2 only
by another property's check (H02-1, H04-3), 2 ended in analysis errors in every check that follows the changed code (H01-3, H02-3). After the
work below all 12 are reported by the check of the property the agent named.

| seed | change (one line, from the agent's meta.json) | verdict | checks that report it | first rule |
|---|---|---|---|---|
"""

CHANGES9 = """
What the ninth round changed, and what it left:

* **A comprehension over a generator object did not step the generator** (H01-3: `[criterion(p, z) for p, z in islice(runs, n_times)]` where
  `runs` simulates ONCE, through `for _ in itertools.repeat(derivative.simulate(...))`): the comprehension treated the `islice` object as
  an opaque sequence, the generator body was never run, and seven checks stopped. Comprehensions over generator objects are now the loop
  that steps them, `for x in itertools.repeat(v)` inside a generator is `while True` with `v` evaluated once; C15.R6 reports the trace
  `simulate portfolio criterion portfolio criterion portfolio criterion` for `n_times=3`.
* **A memo keyed without the dtype, kept in `self.__dict__`** (H02-1, the `__dict__` twin of F04-2): no attribute store, so neither the
  sound-memo test nor the hit path saw it; C02 / C12 / C13 / C16 reported the store, C17 - the property the agent named - did not. C17.R6
  now inspects what the feature readers remember: a `(key, value)` pair whose value is cast like a tensor whose dtype the key does not
  record.
* **A cost sweep on one Whalley-Wilmott module** (H04-3: the band constants memoised under `(id(derivative), a)`, without the cost) was reported by
  C16.R3m ("what one call leaves on the model is read by the next") and not by C20, whose rules evaluated `forward` on a fresh module. C20.R3
  has a call history now - evaluate, assign a new cost rate to the underlier, evaluate again on the same module: the second band depends
  on the new rate and on no other.
* **An amended clause** (H02-3: `payoff()` as `reduce` over a memoised tuple `(payoff_fn, *self.clauses())`, the memo keyed by the clause NAMES):
  the rules that follow `payoff()` on a derivative with an unknown number of clauses stop - a sequence of unknown length unpacked into a
  tuple display has no model - and at first that was all: analysis errors in ten checks, no verdict. C12 now judges its call histories (real
  registries, concrete clauses) even when those rules have stopped, and the scripted histories have one more: 'amend' - evaluate the payoff,
  register another clause under the SAME name, evaluate again; the second payoff applies the new clause. C12.R9 reports H02-3 on all six
  derivative classes (together with the note that the analysis of the symbolic-clause rules is incomplete); C12.R3 judges every path of the
  three-clause fallback instead of demanding one.

"""


def round9():
    r_ = rows_for(r"H\d\d-\d")
    if not r_:
        return
    first9 = {"H01-3": "analysis errors in C02, C03, C06, C14, C15, C16, C17", "H02-1": "reported by C02, C12, C13, C16 only", "H04-3": "reported by C16 only", "H02-3": "analysis errors in 10 checks, no verdict"}
    t_ = "".join(f"| {sid} ({prop}) | {what} | {verdict}{' (first run: ' + first9[sid] + ')' if sid in first9 else ''} | {fired} | {rule} |\n" for sid, prop, what, verdict, fired, rule in r_)
    p = V / "DESIGN.md"
    s = p.read_text()
    a = s.find("### 9.4i ")
    b = s.find("### 9.5 ")
    if a == -1:
        a = b
    p.write_text(s[:a] + INTRO9 + t_ + CHANGES9 + s[b:])
    print(f"### 9.4i written: {len(r_)} rows")


def round8():
    res = V / "refactorings" / "RESULTS.md"
    rows8 = []
    for line in res.read_text().splitlines():
        m = re.match(r"\| (R\d\d-\d) \| ([A-Za-z-]+) \| ([^|]*) \| ([^|]*) \|", line)
        if m and m.group(1) >= "R21":
            rows8.append(tuple(x.strip() for x in m.groups()))
    if not rows8:
        return
    first8 = {"R21-3": "analysis error in C04, C05", "R22-1": "FALSE ALARM C06.R3, C15", "R22-2": "FALSE ALARM C03, C06, C14, C16, C17 + analysis error in C15",
              "R22-3": "analysis error in C15", "R23-1": "FALSE ALARM C01, C03, C07, C16, C17 + analysis errors in C12, C13", "R24-1": "analysis errors in 8 checks",
              "R25-2": "analysis errors in C02, C03", "R26-1": "analysis error in C06", "R26-2": "analysis errors in 7 checks", "R26-4": "FALSE ALARM C20.R2"}
    t_ = "".join(f"| {rid} | {verdict}{' (first run: ' + first8[rid] + ')' if rid in first8 else ''} | {which} | {what[:140]} |\n" for rid, verdict, which, what in rows8)
    p = V / "DESIGN.md"
    s = p.read_text()
    a = s.find("### 9.4h ")
    b = min(x for x in (s.find("### 9.4i "), s.find("### 9.5 ")) if x != -1)
    if a == -1:
        a = b
    p.write_text(s[:a] + INTRO8 + t_ + CHANGES8 + s[b:])
    print(f"### 9.4h written: {len(rows8)} rows")


FIRST7_TEXT = ("21 reported by the check of the property the agent named, for the defect itself; 4 reported for a reason tied to the new form rather than to the "
               "defect - their repaired twins would have been reported as well (F02-2, F05-2, F08-2, F09-2); 1 only by another property's check while its own stopped (F03-2); 3 stopped their own check with an analysis error "
               "(F01-2, F01-3, F10-1); **1 missed by every check** (F08-3, the memoised module factory). Besides, F04-2, F05-1 and F09-2 stopped or timed out "
               "unrelated checks. After the work below all 30 are reported by the check of the property the agent named, each for the defect itself.")
TWINS7_TEXT = ("; at the first run (with the checks as they stood after the work on the 30 defective patches) 23 were silent, 6 raised a false alarm "
               "(G02-2, G04-1, G04-2, G05-2, G05-3, G08-2) and 1 ended in analysis errors (G09-2). The agents' repairs went further than undoing the one "
               "detail: several twins restore exception types, evaluation order, memory layout or the draw order of random numbers that the "
               "defective refactoring had also changed, so a twin is not simply its seed with one line reverted")


if __name__ == "__main__":
    main()
    refactorings()
    round7()
    round8()
    round9()
