"""Seeded-defect bench.
  tools/seeded.py verify <dir>      confirm a candidate (patch.diff + demo.py): applies to /repo HEAD, pinned suite 933/933 with it,
                                    demo fails with it and passes without it.  Works in a scratch git worktree that is removed afterwards.
  tools/seeded.py detect [ids...]   apply each /verif/seeded/<id>/patch.diff to a scratch copy of /repo's working tree and run every
                                    registered check (quick; ST_TIER=thorough for the thorough commands) on it; prints which checks report it
                                    and rewrites /verif/seeded/RESULTS.md.
Nothing here is a registered check; the registered checks always analyse /repo itself."""
import concurrent.futures as cf, json, os, pathlib, shutil, subprocess, sys, tempfile

VERIF = pathlib.Path(__file__).resolve().parent.parent
PY = "/venv/bin/python"
PROPS = [f"C{i:02d}" for i in range(1, 21)]


def sh(cmd, **kw):
    return subprocess.run(cmd, capture_output=True, text=True, **kw)


def verify(d):
    d = pathlib.Path(d).resolve()
    wt = pathlib.Path(tempfile.mkdtemp(prefix="pfsa_seedwt_", dir="/var/tmp")) / "wt"
    res = {}
    try:
        r = sh(["git", "-C", "/repo", "worktree", "add", "--detach", str(wt), "HEAD", "-q"])
        assert r.returncode == 0, r.stderr
        env = dict(os.environ, PYTHONPATH=str(wt))
        demo = d / "demo.py"
        r0 = sh([PY, "-W", "ignore", str(demo)], cwd=str(wt), env=env, timeout=900)
        res["demo_clean_exit"] = r0.returncode
        r = sh(["git", "-C", str(wt), "apply", str(d / "patch.diff")])
        res["applies"] = r.returncode == 0
        if r.returncode:
            res["apply_error"] = r.stderr[-300:]
            return res
        r1 = sh([PY, "-W", "ignore", str(demo)], cwd=str(wt), env=env, timeout=900)
        res["demo_patched_exit"] = r1.returncode
        res["demo_patched_tail"] = (r1.stdout + r1.stderr).strip().splitlines()[-1:] if (r1.stdout + r1.stderr).strip() else []
        rs = sh([PY, str(VERIF / "tools" / "baseline.py"), str(wt), "-n", os.environ.get("SEED_JOBS", "8")], timeout=3600)
        res["suite"] = rs.stdout.strip().splitlines()[0] if rs.stdout.strip() else rs.stderr[-200:]
        res["suite_ok"] = rs.returncode == 0
        res["confirmed"] = bool(res["applies"] and res["suite_ok"] and r0.returncode == 0 and r1.returncode != 0)
        return res
    finally:
        sh(["git", "-C", "/repo", "worktree", "remove", "--force", str(wt)])
        shutil.rmtree(wt.parent, ignore_errors=True)


def detect_one(sid):
    d = pathlib.Path(os.environ.get("SEED_ROOT", str(VERIF / "seeded"))) / sid
    tmp = pathlib.Path(tempfile.mkdtemp(prefix="pfsa_seed_", dir="/var/tmp"))
    tier = os.environ.get("ST_TIER", "quick")
    try:
        shutil.copytree("/repo/pfhedge", tmp / "pfhedge")
        r = sh(["patch", "-p1", "-s", "-d", str(tmp), "-i", str(d / "patch.diff")])
        if r.returncode:
            return sid, None, "patch does not apply: " + (r.stdout + r.stderr)[-200:]
        (tmp / "verif").mkdir()
        shutil.copy(VERIF / "known_findings.json", tmp / "verif" / "known_findings.json")
        env = dict(os.environ, PFSA_REPO=str(tmp), PFSA_VERIF=str(tmp / "verif"))

        def one(pid):
            r = sh([PY, "-W", "ignore", "-m", "pfsa", pid, tier], cwd=str(VERIF), env=env, timeout=1800)
            diag = [l.strip() for l in r.stdout.splitlines() if l.startswith("  ") or l.startswith("ANALYSIS")]
            return pid, r.returncode, diag[:2]

        with cf.ThreadPoolExecutor(max_workers=5) as ex:
            out = list(ex.map(one, PROPS))
        return sid, out, ""
    finally:
        shutil.rmtree(tmp, ignore_errors=True)


def detect(ids):
    root = pathlib.Path(os.environ.get("SEED_ROOT", str(VERIF / "seeded")))
    ids = ids or sorted(p.name for p in root.iterdir() if (p / "patch.diff").exists())
    rows = []
    with cf.ThreadPoolExecutor(max_workers=4) as ex:
        for sid, out, err in ex.map(detect_one, ids):
            meta = json.loads((root / sid / "meta.json").read_text()) if (root / sid / "meta.json").exists() else {}
            own = meta.get("property", sid[:3])
            if out is None:
                print(f"{sid}: {err}")
                rows.append((sid, own, "ERROR", "", err))
                continue
            fired = [p for p, c, _ in out if c == 1]
            errs = [p for p, c, _ in out if c not in (0, 1)]
            verdict = "caught" if own in fired else ("caught-by-other" if fired else ("analysis-error" if errs else "MISSED"))
            diag = next((dg[0] for p, c, dg in out if p == own and c == 1 and dg), next((dg[0] for p, c, dg in out if c == 1 and dg), ""))
            print(f"{sid:22s} own={own} {verdict:16s} fired={','.join(fired) or '-'} errors={','.join(errs) or '-'}")
            if diag:
                print("      ", diag[:230])
            rows.append((sid, own, verdict, ",".join(fired), diag, ",".join(errs), meta.get("title", "")))
    if sys.argv[2:] and os.environ.get("SEED_MERGE") == "1" and (root / "RESULTS.md").exists():
        # re-measured rows replace the rows of the same seeds in the table (after a change that concerns a few seeds only)
        new = {}
        for r in rows:
            sid, own, verdict, fired, diag = r[:5]
            errs, title = (r[5] if len(r) > 5 else ""), (r[6] if len(r) > 6 else "")
            new[sid] = f"| {sid} | {own} | {verdict} | {fired or '-'} | {errs or '-'} | {title.replace('|', '/')} | `{diag[:200].replace('|', '/')}` |"
        lines = (root / "RESULTS.md").read_text().splitlines()
        present = {l.split("|")[1].strip() for l in lines if l.startswith("| ") and l.count("|") > 6}
        lines = [new.get(l.split("|")[1].strip(), l) if l.startswith("| ") and l.count("|") > 6 else l for l in lines]
        lines += [row for sid, row in sorted(new.items()) if sid not in present]
        (root / "RESULTS.md").write_text("\n".join(lines) + "\n")
    if not sys.argv[2:]:
        with open(root / "RESULTS.md", "w") as f:
            f.write(f"# Seeded defects vs. the registered checks ({os.environ.get('ST_TIER', 'quick')} tier)\n\nGenerated by `tools/seeded.py detect`. One row per confirmed seed in this directory.\n\n| seed | property | verdict | checks that report it | analysis errors | what the change is | first diagnosis line |\n|---|---|---|---|---|---|---|\n")
            for r in rows:
                sid, own, verdict, fired, diag = r[:5]
                errs = r[5] if len(r) > 5 else ""
                title = r[6] if len(r) > 6 else ""
                f.write(f"| {sid} | {own} | {verdict} | {fired or '-'} | {errs or '-'} | {title.replace('|', '/')} | `{diag[:200].replace('|', '/')}` |\n")
    return 0


if __name__ == "__main__":
    if sys.argv[1] == "verify":
        r = verify(sys.argv[2])
        print(json.dumps(r, indent=1))
        sys.exit(0 if r.get("confirmed") else 1)
    sys.exit(detect(sys.argv[2:]))
