"""Apply the planned fix: commits FX1..FX5b to a pfhedge tree (argv[1] = repo root). Used for scratch copies now,
and as the source of the real commits later."""
import sys, pathlib
root = pathlib.Path(sys.argv[1])
which = set(sys.argv[2:]) or {"FX1", "FX2", "FX3", "FX4", "FX5a", "FX5b"}
def sub(path, old, new, count=1):
    p = root / path
    s = p.read_text()
    assert s.count(old) >= 1, (path, old[:40])
    p.write_text(s.replace(old, new, count))
if "FX1" in which:
    sub("pfhedge/nn/functional.py", "    w = volatility * time_to_maturity.square()\n", "    w = v * t.sqrt()\n")
if "FX2" in which:
    p = root / "pfhedge/stochastic/vasicek.py"
    s = p.read_text()
    a = s.index("    if init_state[0] != 0:")
    b = s.index("    output = torch.empty(")
    s = s[:a] + s[b:]
    s = s.replace("output[:, i_step + 1] = mu * output[:, i_step] + vola * randn[:, i_step]",
                  "output[:, i_step + 1] = (\n            theta + mu * (output[:, i_step] - theta) + vola * randn[:, i_step]\n        )")
    p.write_text(s)
if "FX3" in which:
    sub("pfhedge/features/features.py", "            output.log_()", "            output = output.log()", 2)
if "FX4" in which:
    sub("pfhedge/nn/modules/clamp.py", "return leaky_clamp(input, min=min, max=max, clamped_slope=self.clamped_slope)",
        "return leaky_clamp(\n            input,\n            min=min,\n            max=max,\n            clamped_slope=self.clamped_slope,\n            inverted_output=self.inverted_output,\n        )")
    pth = root / "pfhedge/nn/modules/clamp.py"
    txt = pth.read_text()
    k = txt.index("class Clamp(Module):")
    j = txt.index("    def forward(", k)
    txt = txt[:j] + '    def __init__(self, inverted_output: str = "mean"):\n        super().__init__()\n        self.inverted_output = inverted_output\n\n' + txt[j:]
    txt = txt.replace("        return clamp(input, min=min, max=max)", "        return clamp(input, min=min, max=max, inverted_output=self.inverted_output)")
    pth.write_text(txt)
if "FX5a" in which:
    sub("pfhedge/nn/functional.py", """    price_0 = spot * (
        ncdf(d1_value) + v * t.sqrt() * (d1_value * ncdf(d1_value) + npdf(d1_value))
    ) - strike * ncdf(d2_value)""", """    w = v * t.sqrt()
    price_0 = spot * (
        ncdf(d1_value) + (s + w.square() / 2) * ncdf(d1_value) + w * npdf(d1_value)
    ) - strike * ncdf(d2_value)""")
    sub("pfhedge/nn/functional.py", "        spot * (ncdf(m1) + v * t.sqrt() * (m1 * ncdf(m1) + npdf(m1)))",
        "        spot * (ncdf(m1) + (s - m + w.square() / 2) * ncdf(m1) + w * npdf(m1))")
if "FX5b" in which:
    sub("pfhedge/nn/functional.py", """    # ToDo: fix 0/0 issue
    p = (
        npdf(d2_tensor).div(spot * w)
        + ncdf(d1_tensor).div(strike)
        + npdf(d1_tensor).div(strike * w)
    )
    return p.where(max_log_moneyness < 0, torch.zeros_like(p))""", """    numerator = npdf(d2_tensor).div(spot) + npdf(d1_tensor).div(strike)
    density = numerator / w
    density = torch.where(
        (numerator == 0).logical_and(w == 0), torch.zeros_like(density), density
    )
    p = density + ncdf(d1_tensor).div(strike)
    return p.where(max_log_moneyness < 0, torch.zeros_like(p))""")
print("applied", sorted(which))
