#!/bin/bash
# usage: tools/intake.sh C09        copy the candidates an agent left in /tmp/wt/C09/_seed/{1,2,3} to /verif/seeded/C09-k, confirm each one
# (patch applies to /repo HEAD, pinned suite 933/933 with it, demo fails with it and passes without) and keep only the confirmed ones.
cd "$(dirname "$0")/.." || exit 2
p="$1"; suffix="${2:-}"
for k in 1 2 3 4 5; do
  src=/tmp/wt/$p/_seed/$k
  [ -f $src/patch.diff ] || continue
  dst=seeded/$p-$suffix$k
  rm -rf $dst; mkdir -p $dst
  cp $src/patch.diff $src/demo.py $dst/ ; [ -f $src/meta.json ] && cp $src/meta.json $dst/meta.json
  SEED_JOBS=${SEED_JOBS:-6} /venv/bin/python tools/seeded.py verify $dst > $dst/verified.json 2>&1
  if grep -q '"confirmed": true' $dst/verified.json; then echo "$dst confirmed"; else echo "$dst NOT confirmed"; cat $dst/verified.json | head -20; mkdir -p seeded/_rejected; rm -rf seeded/_rejected/$p-$suffix$k; mv $dst seeded/_rejected/; fi
done
