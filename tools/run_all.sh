#!/bin/bash
# usage: tools/run_all.sh [quick|thorough]   runs every registered check against /repo (16 at a time) and prints one line per check
cd "$(dirname "$0")/.." || exit 2
tier="${1:-quick}"
out=$(mktemp -d /var/tmp/pfsa_all.XXXXXX)
for i in $(seq -w 1 20); do
  ( ./check C$i $tier > $out/C$i.log 2>&1; echo $? > $out/C$i.rc ) &
done
wait
rc=0
for i in $(seq -w 1 20); do
  c=$(cat $out/C$i.rc); [ "$c" != 0 ] && rc=1
  echo "C$i exit=$c $(grep -c '^KNOWN-FINDING' $out/C$i.log) known, $(grep -c '^VIOLATION' $out/C$i.log) violations :: $(tail -n 1 $out/C$i.log)"
  [ "$c" != 0 ] && grep -A1 -E '^(VIOLATION|ANALYSIS)' $out/C$i.log | head -20
done
rm -rf $out
exit $rc
