"""Run the repository's pinned test suite and compare with the 933 tests of /root/.vp/BASELINE.json.
usage: /venv/bin/python tools/baseline.py [repo_dir] [-n JOBS]     exit 0 iff every stable_pass test passes"""
import json, subprocess, sys, tempfile, os, xml.etree.ElementTree as ET
repo = sys.argv[1] if len(sys.argv) > 1 and not sys.argv[1].startswith("-") else "/repo"
jobs = sys.argv[sys.argv.index("-n") + 1] if "-n" in sys.argv else "16"
base = json.load(open("/root/.vp/BASELINE.json"))
want = set(base["stable_pass"])
with tempfile.TemporaryDirectory(dir="/var/tmp") as d:
    xml = os.path.join(d, "j.xml")
    cmd = ["/venv/bin/python", "-m", "pytest", "-ra", "-q", "-p", "no:cacheprovider", "--timeout=900", "--continue-on-collection-errors", f"--junitxml={xml}", "-n", jobs]
    env = dict(os.environ, PYTHONPATH=repo); env.pop("PFHEDGE_VERIF", None)
    subprocess.run(cmd, cwd=repo, stdout=subprocess.DEVNULL, stderr=subprocess.DEVNULL, env=env)
    passed = set()
    for tc in ET.parse(xml).getroot().iter("testcase"):
        if not any(ch.tag in ("failure", "error", "skipped") for ch in tc):
            passed.add(f"{tc.get('classname')}::{tc.get('name')}")
missing = sorted(want - passed)
print(f"baseline: {len(want & passed)}/{len(want)} pinned tests pass; {len(passed - want)} further tests pass")
for m in missing[:40]:
    print("  NOT PASSING:", m)
sys.exit(1 if missing else 0)
