"""FX8 / C01: pl() packs the cost rates into a default-dtype (float32) tensor before casting to the dtype of the prices, so the float64
P&L deviates from the wealth identity by ~6e-8 of the cost term."""
import torch
from fractions import Fraction
from pfhedge.nn.functional import pl
spot = torch.tensor([[[1.0, 1.5, 2.0]]], dtype=torch.float64)
unit = torch.tensor([[[1.0, 0.0, 0.0]]], dtype=torch.float64)
got = pl(spot, unit, cost=[0.001]).item()
c = Fraction(0.001)
want = float(Fraction(1) * Fraction(1, 2) - c * 1 * Fraction(3, 2) - c * 1 * 1)
print(got, want)
assert abs(got - want) < 1e-15
