"""FX2 / C10,C11: generate_vasicek recurses forever unless init_state[0] in {0, theta}; with init_state[0]==0 theta is ignored."""
import sys, torch
from pfhedge.stochastic import generate_vasicek
sys.setrecursionlimit(200)
torch.manual_seed(0)
try:
    generate_vasicek(4, 5, init_state=(0.05,), theta=0.04)
except RecursionError:
    raise AssertionError("RecursionError for init_state=(0.05,), theta=0.04")
x = generate_vasicek(200000, 3, init_state=(0.0,), kappa=1.0, theta=0.04, sigma=0.01, dt=1.0)
m = float(x[:, 1].mean())
print("E[X_1 | X_0=0] =", m, "expected", 0.04 * (1 - 2.718281828 ** -1))
assert abs(m - 0.04 * (1 - 2.718281828 ** -1)) < 1e-3, "theta ignored when init_state[0] == 0"
