"""FX7 / C06: the default certainty-equivalent search (HedgeLoss.cash, used by IsoelasticLoss and by user criteria) mixes the columns of a
multi-column sample: it brackets on the global min/max and evaluates the criterion on a 0-dim / (M,) tensor instead of a constant
sample per column, so cash(pl)[j] is not as good as column j."""
import torch
from pfhedge.nn import HedgeLoss, IsoelasticLoss
torch.manual_seed(0)
torch.set_default_dtype(torch.float64)

class TailMean(HedgeLoss):  # a user criterion relying on the default search
    def forward(self, input, target=0.0):
        return -(input - target).topk(3, dim=0, largest=False).values.mean(0)

pl = torch.rand(40, 3) + torch.tensor([1.0, 2.0, 3.0])
for crit in (IsoelasticLoss(0.5), TailMean()):
    cash = crit.cash(pl)
    assert cash.shape == (3,), cash.shape
    const = cash.expand_as(pl)
    print(type(crit).__name__, "criterion(sample)", crit(pl).tolist(), "criterion(constant cash)", crit(const).tolist())
    assert torch.allclose(crit(const), crit(pl), atol=1e-5), "cash is not as good as the sample column by column"
    assert (cash >= pl.amin(0) - 1e-6).all() and (cash <= pl.amax(0) + 1e-6).all(), "cash outside [worst, best] of its column"
x = torch.rand(25) + 1
assert torch.allclose(IsoelasticLoss(0.5)(IsoelasticLoss(0.5).cash(x).expand(25)), IsoelasticLoss(0.5)(x), atol=1e-5)
