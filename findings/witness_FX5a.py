"""FX5a / C18: bs_lookback_price is NaN at maturity and at zero volatility."""
import torch
from pfhedge.nn.functional import bs_lookback_price
for s, m in [(-0.1, 0.05), (0.1, 0.2), (-0.2, -0.1)]:
    for t, v in [(0.0, 0.2), (0.3, 0.0), (0.0, 0.0)]:
        p = bs_lookback_price(torch.tensor(s), torch.tensor(m), torch.tensor(t), torch.tensor(v), strike=1.0)
        want = max(torch.tensor(m).exp().item() - 1.0, 0.0)
        print(s, m, t, v, float(p), "expected", want)
        assert abs(float(p) - want) < 1e-6, "lookback price is not the locked-in payoff at the boundary"
