"""FX9 / C20: a Python-float bound of leaky_clamp / clamp is rounded to float32 before it is compared with float64 data."""
import torch
from pfhedge.nn.functional import clamp, leaky_clamp
x = torch.tensor([0.0, 0.5, 2.0], dtype=torch.float64)
print(clamp(x, min=0.1, max=1.3).tolist(), leaky_clamp(x, min=0.1, max=1.3, clamped_slope=0.0).tolist())
assert clamp(x, min=0.1, max=1.3).tolist() == [0.1, 0.5, 1.3]
assert leaky_clamp(x, min=0.1, max=1.3, clamped_slope=0.0).tolist() == [0.1, 0.5, 1.3]
assert leaky_clamp(x.float(), min=0.1, max=1.3, clamped_slope=0.0).dtype == torch.float32
