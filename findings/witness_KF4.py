"""KF4 / C06 (known finding): the default certainty-equivalent search raises ValueError for a constant P&L sample (its bracket
[min, max] is degenerate and bisect demands lower < upper), although the cash amount of a constant sample c is c."""
import torch
from pfhedge.nn import IsoelasticLoss
c = IsoelasticLoss(0.5).cash(torch.full((10,), 1.3))
print(c)
assert abs(float(c) - 1.3) < 1e-5
