"""KF3 / C13, C12: a maturity (start time) that is a whole number of steps up to floating-point rounding gets one grid point too many
(resp. the previous start index): ceil(time_horizon / dt + 1) and floor(start / dt) on an unguarded float quotient."""
import torch
from pfhedge.instruments import (BrownianStock, CIRRate, EuropeanForwardStartOption, EuropeanOption, HestonStock, KouJumpStock,
                                 LocalVolatilityStock, MertonJumpStock, RoughBergomiStock, VasicekRate)
torch.manual_seed(0)
bad = []
for make in (BrownianStock, HestonStock, MertonJumpStock, KouJumpStock, RoughBergomiStock, CIRRate, VasicekRate,
             lambda dt: LocalVolatilityStock(lambda t, s: torch.full_like(s, 0.2), dt=dt)):
    for k, d in ((29, 365), (30, 365), (57, 250), (3, 12), (6, 10), (12, 10)):
        u = make(dt=1 / d)
        u.simulate(n_paths=2, time_horizon=k / d)
        if u.spot.size(1) != k + 1:
            bad.append((type(u).__name__, k, d, u.spot.size(1)))
u = BrownianStock(dt=1 / 250)
u.simulate(n_paths=2, time_horizon=62.5 / 250)
assert u.spot.size(1) == 64, "a non-integer ratio 62.5 needs ceil(62.5) + 1 = 64 points"
print("wrong grid sizes (class, k, 1/dt, points):", bad[:6], "..." if len(bad) > 6 else "")
assert not bad, "maturity = k*dt must give k+1 time points"
d = EuropeanForwardStartOption(BrownianStock(dt=0.1), maturity=5.0, start=4.3)
print("start index for start=4.3, dt=0.1:", d._start_index())
assert d._start_index() == 43
assert EuropeanForwardStartOption(BrownianStock(dt=0.1), maturity=5.0, start=4.35)._start_index() == 43
