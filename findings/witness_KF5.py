"""KF5 / C10 (known finding): Brownian paths driven by the library's own quasi-random engine do not have the Brownian law. RandnSobolBoxMuller
lays consecutive points of ONE two-dimensional Sobol sequence out along the time axis; consecutive low-discrepancy points are strongly
negatively correlated, so the increments of a path are not independent and Var[B_T] is about 0.1 sigma^2 T."""
import torch
from pfhedge.stochastic import generate_brownian
from pfhedge.stochastic.engine import RandnSobolBoxMuller
sigma, dt, T = 0.2, 1 / 250, 50
ratios = []
for seed in range(3):
    x = generate_brownian(20000, T, sigma=sigma, dt=dt, engine=RandnSobolBoxMuller(seed=seed, scramble=True))
    ratios.append(float(x[:, -1].var() / (sigma ** 2 * (T - 1) * dt)))
print("Var[B_T] / (sigma^2 T) for three scramblings:", [round(r, 3) for r in ratios])
assert all(abs(r - 1) < 0.1 for r in ratios), "terminal variance is not sigma^2 T"
