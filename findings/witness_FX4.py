"""FX4 / C20: LeakyClamp(inverted_output='max') behaves as 'mean'; Clamp rejects the documented option."""
import torch
from pfhedge.nn import Clamp, LeakyClamp
from pfhedge.nn.functional import leaky_clamp
x, lo, hi = torch.tensor([0.5]), torch.tensor([1.0]), torch.tensor([0.0])
want = leaky_clamp(x, lo, hi, clamped_slope=0.1, inverted_output="max")
got = LeakyClamp(clamped_slope=0.1, inverted_output="max")(x, lo, hi)
print("functional", want, "module", got)
assert torch.equal(want, got), "LeakyClamp ignores inverted_output"
assert torch.equal(Clamp(inverted_output="max")(x, lo, hi), hi), "Clamp does not honour the documented option"
