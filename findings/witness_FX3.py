"""FX3 / C16: UnderlierSpot(log=True).get(None) overwrites the simulated spot buffer with its logarithm."""
import torch
from pfhedge.features import UnderlierSpot
from pfhedge.instruments import BrownianStock, EuropeanOption
torch.manual_seed(0)
d = EuropeanOption(BrownianStock())
d.simulate(n_paths=3)
before = d.ul().spot.clone()
UnderlierSpot(log=True).of(d).get(None)
print("max change of the buffer:", float((d.ul().spot - before).abs().max()))
assert torch.equal(d.ul().spot, before), "feature evaluation mutated the market data"
