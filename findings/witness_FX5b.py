"""FX5b / C18: bs_american_binary_delta is NaN below the barrier at maturity / zero volatility (0/0)."""
import torch
from pfhedge.nn.functional import bs_american_binary_delta
for t, v in [(0.0, 0.2), (0.3, 0.0), (0.0, 0.0)]:
    d = bs_american_binary_delta(torch.tensor(-0.1), torch.tensor(-0.1), torch.tensor(t), torch.tensor(v), strike=1.0)
    print(t, v, float(d))
    assert float(d) == 0.0, "delta below the barrier at the boundary must be 0"
