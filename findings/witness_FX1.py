"""FX1 / C08: bs_european_binary_gamma is not d2(price)/dS2 away from maturity 1 (w = v * t.square())."""
import torch
from pfhedge.nn.functional import bs_european_binary_gamma, bs_european_binary_price
torch.set_default_dtype(torch.float64)
K, t, v = 2.0, torch.tensor(0.25), torch.tensor(0.2)
S = torch.tensor(2.0, requires_grad=True)
price = bs_european_binary_price((S / K).log(), t, v)
(delta,) = torch.autograd.grad(price, S, create_graph=True)
(gamma_ad,) = torch.autograd.grad(delta, S)
gamma_cf = bs_european_binary_gamma(torch.tensor(0.0), t, v, strike=K)
print("closed form", float(gamma_cf), "autograd of the price", float(gamma_ad))
assert abs(float(gamma_cf) - float(gamma_ad)) < 1e-6, "gamma is not the second derivative of the price"
