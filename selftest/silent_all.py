"""Every behaviour-preserving variant against EVERY check (not only the check of the property it was written for): any exit code other
than 0 is a false alarm (exit 1) or a brittle analysis (exit 2) on code where all properties still hold."""
import concurrent.futures as cf, os, pathlib, shutil, subprocess, sys, tempfile
HERE = pathlib.Path(__file__).resolve().parent
sys.path.insert(0, str(HERE.parent))
from selftest.mutants import M  # noqa: E402
PROPS = [f"C{i:02d}" for i in range(1, 21)]
# variants that keep the property they are listed under but change the behaviour another property speaks about: not part of this bench
OWN_PROPERTY_ONLY = {"s-c02-ww-width-running-max-causal": "a running maximum of the band width is still causal (C02) but it is another band (C20) and another feature axis (C03)"}
muts = {}
for m in M:
    if m["expect"] == "silent" and m["id"] not in OWN_PROPERTY_ONLY:
        muts.setdefault((m["file"], m["old"], m["new"], str(m.get("extra"))), m)  # the same edit is often listed under several properties


def one(mut):
    tmp = pathlib.Path(tempfile.mkdtemp(prefix="pfsa_sa_", dir="/var/tmp"))
    try:
        shutil.copytree("/repo/pfhedge", tmp / "pfhedge")
        p = tmp / "pfhedge" / mut["file"]
        s = p.read_text()
        if mut["old"] not in s:
            return mut["id"], [("-", "PATTERN-NOT-FOUND", "")]
        s = s.replace(mut["old"], mut["new"], 1)
        if mut.get("extra"):
            s = s.replace(mut["extra"][0], mut["extra"][1], 1)
        p.write_text(s)
        (tmp / "verif").mkdir()
        shutil.copy(HERE.parent / "known_findings.json", tmp / "verif")
        env = dict(os.environ, PFSA_REPO=str(tmp), PFSA_VERIF=str(tmp / "verif"))
        bad = []
        for pid in PROPS:
            r = subprocess.run(["/venv/bin/python", "-W", "ignore", "-m", "pfsa", pid, "quick"], cwd=str(HERE.parent), env=env, capture_output=True, text=True, timeout=900)
            if r.returncode != 0:
                line = [l for l in r.stdout.splitlines() if l.startswith("  ") or l.startswith("ANALYSIS")]
                bad.append((pid, r.returncode, line[0][:200] if line else ""))
        return mut["id"], bad
    finally:
        shutil.rmtree(tmp, ignore_errors=True)


if __name__ == "__main__":
    n_bad = 0
    with cf.ThreadPoolExecutor(max_workers=int(os.environ.get("JOBS", "12"))) as ex:
        for mid, bad in ex.map(one, list(muts.values())):
            if bad:
                n_bad += 1
                print(mid, "::", "; ".join(f"{p} exit {c}" for p, c, _ in bad))
                for p, c, l in bad:
                    print("      ", p, l)
    print(f"{len(muts)} distinct behaviour-preserving variants x {len(PROPS)} checks; {n_bad} variants with a non-zero exit somewhere")
    sys.exit(1 if n_bad else 0)
