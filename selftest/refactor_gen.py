"""Mechanical behaviour-preserving rewrites of the whole package, to probe the checks for brittleness (false alarms / analysis errors):
  kw      every positional argument of a call that resolves to a pfhedge function or method is passed by keyword
  locals  every `return <expr>` becomes `result_ = <expr>; return result_`
  ifelse  `x = a if c else b` assignments become if/else statements
  rename  every local variable of every function is renamed (suffix _r)
  comp2loop / loop2comp   list comprehensions <-> loops that append
  torchfn x.exp() / x.log() / x.sqrt() / x.square() / x.cumsum(..) ... become torch.exp(x) ...
usage: selftest/refactor_gen.py <variant> <out dir>     writes a rewritten copy of /repo/pfhedge to <out dir>/pfhedge
       selftest/refactor_gen.py run <variant>           rewrite, (MT_SUITE=1: run the pinned suite on it,) run every check, report"""
import ast
import os
import pathlib
import shutil
import subprocess
import sys
import tempfile

HERE = pathlib.Path(__file__).resolve().parent
sys.path.insert(0, str(HERE.parent))
from pfsa.source import Program  # noqa: E402

PY = "/venv/bin/python"


class KwRewriter(ast.NodeTransformer):
    def __init__(self, prog, module):
        self.prog, self.module, self.cls = prog, module, []
        self.n = 0

    def visit_ClassDef(self, node):
        self.cls.append(self.module + "." + node.name)
        self.generic_visit(node)
        self.cls.pop()
        return node

    def target(self, f):
        if isinstance(f, ast.Name):
            q = self.prog.resolve_name(self.module, f.id)
            return (self.prog.functions.get(q), False) if q else (None, False)
        if isinstance(f, ast.Attribute) and isinstance(f.value, ast.Name) and f.value.id == "self" and self.cls:
            fi = self.prog.lookup_method(self.cls[-1], f.attr)
            if fi is not None and not fi.is_property and not fi.is_staticmethod and not fi.is_classmethod:
                return fi, True
        return None, False

    def visit_Call(self, node):
        self.generic_visit(node)
        fi, is_method = self.target(node.func)
        if fi is None or not node.args or any(isinstance(a, ast.Starred) for a in node.args) or any(k.arg is None for k in node.keywords):
            return node
        a = fi.node.args
        if a.vararg is not None or a.posonlyargs:
            return node
        names = [x.arg for x in a.args][1 if is_method else 0:]
        if len(node.args) > len(names):
            return node
        keep = 1 if names and names[0] in ("input", "self") else 0  # the leading tensor stays positional, as in ordinary code
        new_kw = [ast.keyword(arg=n, value=v) for n, v in zip(names[keep:], node.args[keep:])]
        if not new_kw or {k.arg for k in new_kw} & {k.arg for k in node.keywords}:
            return node
        node.args = node.args[:keep]
        node.keywords = new_kw + node.keywords
        self.n += 1
        return node


class ReturnLocal(ast.NodeTransformer):
    def __init__(self):
        self.n = 0

    def visit_FunctionDef(self, node):
        self.generic_visit(node)
        is_gen = any(isinstance(x, (ast.Yield, ast.YieldFrom)) for x in ast.walk(node))
        if is_gen:
            return node

        def fix(body):
            out = []
            for st in body:
                if isinstance(st, ast.Return) and st.value is not None and not isinstance(st.value, (ast.Name, ast.Constant)):
                    out.append(ast.Assign(targets=[ast.Name(id="result_", ctx=ast.Store())], value=st.value, lineno=st.lineno))
                    out.append(ast.Return(value=ast.Name(id="result_", ctx=ast.Load())))
                    self.n += 1
                else:
                    for fld in ("body", "orelse", "finalbody"):
                        if hasattr(st, fld) and isinstance(getattr(st, fld), list) and not isinstance(st, (ast.FunctionDef, ast.ClassDef, ast.Lambda)):
                            setattr(st, fld, fix(getattr(st, fld)))
                    out.append(st)
            return out
        node.body = fix(node.body)
        return node


class IfElse(ast.NodeTransformer):
    def __init__(self):
        self.n = 0

    def visit_Assign(self, node):
        if isinstance(node.value, ast.IfExp) and len(node.targets) == 1 and isinstance(node.targets[0], ast.Name):
            self.n += 1
            t = node.targets[0]
            return ast.If(test=node.value.test, body=[ast.Assign(targets=[ast.Name(id=t.id, ctx=ast.Store())], value=node.value.body, lineno=node.lineno)],
                          orelse=[ast.Assign(targets=[ast.Name(id=t.id, ctx=ast.Store())], value=node.value.orelse, lineno=node.lineno)])
        return node


class RenameLocals(ast.NodeTransformer):
    """every local variable of a function (assigned in its own body, not a parameter) gets the suffix _r, consistently in nested scopes;
    functions with nested definitions that rebind one of those names are left alone"""
    def __init__(self):
        self.n = 0

    def visit_FunctionDef(self, node):
        self.generic_visit(node)
        params = {a.arg for a in node.args.args + node.args.kwonlyargs + node.args.posonlyargs} | ({node.args.vararg.arg} if node.args.vararg else set()) | ({node.args.kwarg.arg} if node.args.kwarg else set())
        own, nested_bind, declared = set(), set(), set()

        def collect(n, top):
            for c in ast.iter_child_nodes(n):
                if isinstance(c, (ast.FunctionDef, ast.Lambda, ast.ClassDef)):
                    if isinstance(c, ast.FunctionDef):
                        (own if top else nested_bind).add(c.name)
                    a = getattr(c, "args", None)
                    if a is not None:
                        nested_bind.update(x.arg for x in a.args + a.kwonlyargs)
                    for t in ast.walk(c):
                        if isinstance(t, ast.Name) and isinstance(t.ctx, ast.Store):
                            nested_bind.add(t.id)
                    continue
                if isinstance(c, (ast.Global, ast.Nonlocal)):
                    declared.update(c.names)
                if isinstance(c, ast.Name) and isinstance(c.ctx, ast.Store) and not isinstance(n, (ast.ListComp, ast.GeneratorExp, ast.SetComp, ast.DictComp, ast.comprehension)):
                    own.add(c.id)
                if isinstance(c, (ast.ListComp, ast.GeneratorExp, ast.SetComp, ast.DictComp)):
                    for t in ast.walk(c):
                        if isinstance(t, ast.Name) and isinstance(t.ctx, ast.Store):
                            nested_bind.add(t.id)
                    continue
                collect(c, top)
        collect(node, True)
        names = {x for x in own if x not in params and x not in declared and x not in nested_bind and not x.startswith("__")}
        names -= {c.name for c in ast.walk(node) if isinstance(c, ast.FunctionDef)}
        if not names:
            return node
        for t in ast.walk(node):
            if isinstance(t, ast.Name) and t.id in names:
                t.id = t.id + "_r"
        self.n += len(names)
        return node


TORCH_POINTWISE = {"exp", "log", "sqrt", "square", "abs", "cumsum", "cumprod", "relu", "sigmoid", "tanh", "isnan"}


class TorchFunctionForm(ast.NodeTransformer):
    """x.exp() -> torch.exp(x) for a few pointwise / scan methods (in modules that import torch)"""
    def __init__(self):
        self.n = 0

    def visit_Call(self, node):
        self.generic_visit(node)
        f = node.func
        if isinstance(f, ast.Attribute) and f.attr in TORCH_POINTWISE - {"relu"} and not (isinstance(f.value, ast.Name) and f.value.id in ("torch", "fn", "F", "math", "np", "self")):
            self.n += 1
            return ast.Call(func=ast.Attribute(value=ast.Name(id="torch", ctx=ast.Load()), attr=f.attr, ctx=ast.Load()), args=[f.value] + node.args, keywords=node.keywords)
        return node


class CompToLoop(ast.NodeTransformer):
    """`name = [elt for t in it]` (one generator, no condition) -> `name = []` + for-loop with append"""
    def __init__(self):
        self.n = 0

    def _fix(self, body):
        out = []
        for st in body:
            if (isinstance(st, ast.Assign) and len(st.targets) == 1 and isinstance(st.targets[0], ast.Name) and isinstance(st.value, ast.ListComp)
                    and len(st.value.generators) == 1 and not st.value.generators[0].ifs and not st.value.generators[0].is_async):
                g = st.value.generators[0]
                nm = st.targets[0].id
                if any(isinstance(x, ast.Name) and x.id == nm for x in ast.walk(st.value)):
                    out.append(st)
                    continue
                self.n += 1
                out.append(ast.Assign(targets=[ast.Name(id=nm, ctx=ast.Store())], value=ast.List(elts=[], ctx=ast.Load()), lineno=st.lineno))
                out.append(ast.For(target=g.target, iter=g.iter, orelse=[], body=[ast.Expr(value=ast.Call(func=ast.Attribute(value=ast.Name(id=nm, ctx=ast.Load()), attr="append", ctx=ast.Load()),
                                                                                                     args=[st.value.elt], keywords=[]))], lineno=st.lineno))
            else:
                for fld in ("body", "orelse", "finalbody"):
                    if hasattr(st, fld) and isinstance(getattr(st, fld), list) and getattr(st, fld) and isinstance(getattr(st, fld)[0], ast.stmt):
                        setattr(st, fld, self._fix(getattr(st, fld)))
                out.append(st)
        return out

    def visit_Module(self, node):
        node.body = self._fix(node.body)
        return node


class LoopToComp(ast.NodeTransformer):
    """`name = []` directly followed by `for t in it: name.append(expr)` -> `name = [expr for t in it]`"""
    def __init__(self):
        self.n = 0

    def _fix(self, body):
        out, k = [], 0
        while k < len(body):
            st = body[k]
            nxt = body[k + 1] if k + 1 < len(body) else None
            if (isinstance(st, ast.Assign) and len(st.targets) == 1 and isinstance(st.targets[0], ast.Name) and isinstance(st.value, ast.List) and not st.value.elts
                    and isinstance(nxt, ast.For) and not nxt.orelse and len(nxt.body) == 1 and isinstance(nxt.body[0], ast.Expr) and isinstance(nxt.body[0].value, ast.Call)
                    and isinstance(nxt.body[0].value.func, ast.Attribute) and nxt.body[0].value.func.attr == "append" and isinstance(nxt.body[0].value.func.value, ast.Name)
                    and nxt.body[0].value.func.value.id == st.targets[0].id and len(nxt.body[0].value.args) == 1
                    and not any(isinstance(x, ast.Name) and x.id == st.targets[0].id for x in ast.walk(nxt.body[0].value.args[0]))):
                self.n += 1
                out.append(ast.Assign(targets=[ast.Name(id=st.targets[0].id, ctx=ast.Store())], lineno=st.lineno,
                                      value=ast.ListComp(elt=nxt.body[0].value.args[0], generators=[ast.comprehension(target=nxt.target, iter=nxt.iter, ifs=[], is_async=0)])))
                k += 2
                continue
            for fld in ("body", "orelse", "finalbody"):
                if hasattr(st, fld) and isinstance(getattr(st, fld), list) and getattr(st, fld) and isinstance(getattr(st, fld)[0], ast.stmt):
                    setattr(st, fld, self._fix(getattr(st, fld)))
            out.append(st)
            k += 1
        return out

    def visit_Module(self, node):
        node.body = self._fix(node.body)
        return node


def rewrite(variant, out):
    out = pathlib.Path(out)
    shutil.copytree("/repo/pfhedge", out / "pfhedge")
    prog = Program()
    total = 0
    for mod in prog.modules.values():
        rel = pathlib.Path(mod.path).relative_to(os.environ.get("PFSA_REPO", "/repo"))
        tree = ast.parse(pathlib.Path(mod.path).read_text())
        if variant == "torchfn" and not any(l.strip() == "import torch" for l in pathlib.Path(mod.path).read_text().splitlines()):
            continue
        tr = {"kw": lambda: KwRewriter(prog, mod.name), "locals": ReturnLocal, "ifelse": IfElse, "rename": RenameLocals, "torchfn": TorchFunctionForm, "comp2loop": CompToLoop, "loop2comp": LoopToComp}[variant]()
        tree = tr.visit(tree)
        if tr.n:
            ast.fix_missing_locations(tree)
            (out / rel).write_text(ast.unparse(tree) + "\n")
            total += tr.n
    return total


def run(variant):
    tmp = pathlib.Path(tempfile.mkdtemp(prefix="pfsa_rg_", dir="/var/tmp"))
    try:
        n = rewrite(variant, tmp)
        print(f"{variant}: {n} sites rewritten")
        for f in ("tests", "pyproject.toml", "README.md", "Makefile", "docs"):
            src = pathlib.Path("/repo") / f
            if src.is_dir():
                shutil.copytree(src, tmp / f)
            elif src.exists():
                shutil.copy(src, tmp / f)
        if os.environ.get("MT_SUITE") == "1":
            r = subprocess.run([PY, str(HERE.parent / "tools" / "baseline.py"), str(tmp), "-n", "16"], capture_output=True, text=True)
            print("suite:", (r.stdout.strip().splitlines() or [r.stderr[-200:]])[0])
        (tmp / "verif").mkdir()
        shutil.copy(HERE.parent / "known_findings.json", tmp / "verif")
        env = dict(os.environ, PFSA_REPO=str(tmp), PFSA_VERIF=str(tmp / "verif"))
        bad = 0
        for i in range(1, 21):
            pid = f"C{i:02d}"
            r = subprocess.run([PY, "-W", "ignore", "-m", "pfsa", pid, "quick"], cwd=str(HERE.parent), env=env, capture_output=True, text=True)
            if r.returncode != 0:
                bad += 1
                lines = [l for l in r.stdout.splitlines() if l.startswith("  ") or l.startswith("ANALYSIS") or "Error" in l]
                print(f"  {pid} exit {r.returncode}: {(lines[0] if lines else r.stdout[-200:])[:260]}")
        print(f"{variant}: {bad} checks not silent")
        return bad
    finally:
        shutil.rmtree(tmp, ignore_errors=True)


if __name__ == "__main__":
    if sys.argv[1] == "run":
        sys.exit(1 if sum(run(v) for v in sys.argv[2:]) else 0)
    print(rewrite(sys.argv[1], sys.argv[2]), "sites")
