"""run check <prop> on every behaviour-preserving variant that touches <file substring> (cross-property false-alarm probe)"""
import sys, os, pathlib, shutil, subprocess, tempfile, concurrent.futures as cf
sys.path.insert(0, '/verif')
from selftest.mutants import M
prop, sub = sys.argv[1], sys.argv[2]
muts = [m for m in M if m['expect'] == 'silent' and sub in m['file']]
def one(mut):
    tmp = pathlib.Path(tempfile.mkdtemp(prefix='pfsa_x_', dir='/var/tmp'))
    try:
        shutil.copytree('/repo/pfhedge', tmp / 'pfhedge')
        p = tmp / 'pfhedge' / mut['file']; s = p.read_text()
        if mut['old'] not in s: return mut['id'], 'nopattern'
        s = s.replace(mut['old'], mut['new'], 1)
        if mut.get('extra'): s = s.replace(mut['extra'][0], mut['extra'][1], 1)
        p.write_text(s); (tmp / 'verif').mkdir(); shutil.copy('/verif/known_findings.json', tmp / 'verif')
        r = subprocess.run(['/venv/bin/python', '-W', 'ignore', '-m', 'pfsa', prop, 'quick'], cwd='/verif', env=dict(os.environ, PFSA_REPO=str(tmp), PFSA_VERIF=str(tmp / 'verif')), capture_output=True, text=True)
        return mut['id'], r.returncode, [l for l in r.stdout.splitlines() if l.startswith('  ') or l.startswith('ANALYSIS')][:1]
    finally:
        shutil.rmtree(tmp, ignore_errors=True)
with cf.ThreadPoolExecutor(8) as ex:
    res = list(ex.map(one, muts))
bad = [r for r in res if r[1] != 0]
print(len(res), 'silent variants;', len(bad), 'not silent under', prop)
for b in bad: print(b)
