"""Unbiased mutation sample: random AST operators on the anchored files of the repaired tree; every property's quick check is run on each mutant."""
import ast, concurrent.futures as cf, copy, json, os, pathlib, random, shutil, subprocess, sys, tempfile
BASE = pathlib.Path(os.environ.get("PFSA_SELFTEST_BASE", "/repo"))
STAGE = str(pathlib.Path(__file__).resolve().parent.parent)
FILES = ["nn/functional.py", "nn/modules/hedger.py", "nn/modules/loss.py", "_utils/bisect.py", "_utils/parse.py", "_utils/hook.py", "_utils/operations.py", "autogreek.py",
         "stochastic/brownian.py", "stochastic/cir.py", "stochastic/heston.py", "stochastic/vasicek.py", "stochastic/merton_jump.py", "stochastic/kou_jump.py", "stochastic/rough_bergomi.py",
         "stochastic/local_volatility.py", "stochastic/_utils.py", "stochastic/random.py", "instruments/primary/base.py", "instruments/derivative/base.py", "instruments/primary/brownian.py",
         "instruments/primary/heston.py", "instruments/derivative/european.py", "instruments/derivative/cliquet.py", "instruments/derivative/variance_swap.py", "features/features.py",
         "features/container.py", "features/_base.py", "nn/modules/clamp.py", "nn/modules/ww.py", "nn/modules/bs/_base.py", "nn/modules/bs/european.py", "nn/modules/bs/american_binary.py", "nn/modules/bs/european_binary.py", "nn/modules/bs/lookback.py", "nn/modules/svi.py", "nn/modules/naked.py", "stochastic/engine.py", "instruments/primary/cir.py", "instruments/primary/vasicek.py", "instruments/primary/kou_jump.py", "instruments/primary/merton_jump.py", "instruments/primary/rough_bergomi.py", "instruments/primary/local_volatility.py", "instruments/derivative/lookback.py", "instruments/derivative/american_binary.py", "instruments/derivative/european_binary.py", "instruments/base.py"]
PROPS = [f"C{i:02d}" for i in range(1, 21)]
ANCH = {}
for line in open("/verif/properties.jsonl"):
    p_ = json.loads(line)
    for f_ in p_["anchors"]["files"]:
        ANCH.setdefault(f_.replace("pfhedge/", ""), set()).add(p_["id"])
SWAP = {ast.Add: ast.Sub, ast.Sub: ast.Add, ast.Mult: ast.Div, ast.Div: ast.Mult, ast.Lt: ast.LtE, ast.LtE: ast.Lt, ast.Gt: ast.GtE, ast.GtE: ast.Gt, ast.Eq: ast.NotEq, ast.NotEq: ast.Eq}

def candidates(tree):
    out = []
    if os.environ.get("MT_MODE") == "delete":
        for fn in ast.walk(tree):
            if isinstance(fn, ast.FunctionDef) and fn.name not in ("extra_repr", "__repr__", "__str__", "_dinfo"):
                for st in ast.walk(fn):
                    if isinstance(st, (ast.Assign, ast.AugAssign, ast.Expr)) and not (isinstance(st, ast.Expr) and isinstance(st.value, ast.Constant)):
                        out.append(("del", st))
        return out
    doc = set()
    for n in ast.walk(tree):
        if isinstance(n, (ast.FunctionDef, ast.ClassDef, ast.Module)) and n.body and isinstance(n.body[0], ast.Expr) and isinstance(n.body[0].value, ast.Constant) and isinstance(n.body[0].value.value, str):
            for x in ast.walk(n.body[0]):
                doc.add(id(x))
    for fn in ast.walk(tree):
        if isinstance(fn, ast.FunctionDef):
            for dflt in list(fn.args.defaults) + [d for d in fn.args.kw_defaults if d is not None]:
                for x in ast.walk(dflt):
                    doc.add(id(x))
            if fn.name in ("extra_repr", "__repr__", "__str__", "_dinfo"):
                for x in ast.walk(fn):
                    doc.add(id(x))
        if isinstance(fn, ast.Raise) or (isinstance(fn, ast.BinOp) and any(isinstance(y, (ast.Constant, ast.JoinedStr)) and isinstance(getattr(y, "value", ""), str) for y in (fn.left, fn.right))):
            for x in ast.walk(fn):
                doc.add(id(x))
    for n in ast.walk(tree):
        if id(n) in doc:
            continue
        if isinstance(n, ast.BinOp) and type(n.op) in SWAP:
            out.append(("binop", n))
        elif isinstance(n, ast.Compare) and len(n.ops) == 1 and type(n.ops[0]) in SWAP:
            out.append(("cmp", n))
        elif isinstance(n, ast.Constant) and isinstance(n.value, (int, float)) and not isinstance(n.value, bool) and n.value in (0, 1, -1, 2, 0.5, 0.0, 1.0, 2.0):
            out.append(("const", n))
        elif isinstance(n, ast.Constant) and isinstance(n.value, bool):
            out.append(("bool", n))
        elif isinstance(n, ast.UnaryOp) and isinstance(n.op, ast.USub) and not isinstance(n.operand, ast.Constant):
            out.append(("neg", n))
    return out

def make(seed, n_total):
    rnd = random.Random(seed)
    pool = []
    for f in FILES:
        tree = ast.parse((BASE / "pfhedge" / f).read_text())
        for k, (kind, node) in enumerate(candidates(tree)):
            pool.append((f, k, kind, node.lineno))
    rnd.shuffle(pool)
    return pool[:n_total]

def apply(f, k):
    src = (BASE / "pfhedge" / f).read_text()
    tree = ast.parse(src)
    kind, node = candidates(tree)[k]
    before = ast.unparse(node)
    if kind == "binop":
        node.op = SWAP[type(node.op)]()
    elif kind == "cmp":
        node.ops = [SWAP[type(node.ops[0])]()]
    elif kind == "const":
        node.value = {0: 1, 1: 2, -1: -2, 2: 3, 0.5: 0.25, 0.0: 1.0, 1.0: 2.0, 2.0: 3.0}[node.value]
    elif kind == "bool":
        node.value = not node.value
    elif kind == "neg":
        node.op = ast.UAdd()
    elif kind == "del":
        before = ast.unparse(node)
        for parent in ast.walk(tree):
            for fld in ("body", "orelse"):
                b = getattr(parent, fld, None)
                if isinstance(b, list) and node in b:
                    b[b.index(node)] = ast.Pass()
        return ast.unparse(tree), before, "pass"
    return ast.unparse(tree), before, ast.unparse(node)

def run_one(item):
    f, k, kind, line = item
    tmp = pathlib.Path(tempfile.mkdtemp(prefix="pfsa_mt_", dir="/var/tmp"))
    try:
        shutil.copytree(BASE / "pfhedge", tmp / "pfhedge")
        new_src, before, after = apply(f, k)
        (tmp / "pfhedge" / f).write_text(new_src)
        (tmp / "verif").mkdir()
        shutil.copy(STAGE + "/known_findings.json", tmp / "verif" / "known_findings.json")
        env = dict(os.environ, PFSA_REPO=str(tmp), PFSA_VERIF=str(tmp / "verif"))
        fired, errors = [], []
        for pid in sorted(ANCH.get(f, set(PROPS))):
            r = subprocess.run(["/venv/bin/python", "-W", "ignore", "-m", "pfsa", pid, "quick"], cwd=STAGE, env=env, capture_output=True, text=True, timeout=900)
            if r.returncode == 1:
                fired.append(pid)
            elif r.returncode != 0:
                errors.append(pid)
        suite = None
        if not fired and not errors and os.environ.get("MT_SUITE"):
            # a mutant no check reports: does the pinned suite notice it?  (suite passes + checks silent = candidate escape, to be read by hand)
            full = tmp / "full"
            subprocess.run(["rsync", "-a", "--exclude", ".git", "--exclude", "__pycache__", str(BASE) + "/", str(full) + "/"], check=True)
            (full / "pfhedge" / f).write_text(new_src)
            rs = subprocess.run(["/venv/bin/python", STAGE + "/tools/baseline.py", str(full), "-n", os.environ.get("MT_SUITE_JOBS", "4")], capture_output=True, text=True, timeout=3600)
            suite = "pass" if rs.returncode == 0 else "fail: " + " ".join(l.split("::")[-1] for l in rs.stdout.splitlines()[1:4])
        return dict(file=f, k=k, kind=kind, line=line, before=before, after=after, fired=fired, errors=errors, suite=suite)
    finally:
        shutil.rmtree(tmp, ignore_errors=True)

if __name__ == "__main__":
    seed, n = int(sys.argv[1]), int(sys.argv[2])
    items = make(seed, n)
    res = []
    with cf.ThreadPoolExecutor(max_workers=8) as ex:
        for r in ex.map(run_one, items):
            res.append(r)
            tag = "FIRE " + ",".join(r["fired"]) if r["fired"] else ("ERR " + ",".join(r["errors"]) if r["errors"] else "silent" + (f" (suite {r['suite']})" if r.get("suite") else ""))
            print(f"{r['file']}:{r['line']} [{r['kind']}] {r['before'][:60]!r} -> {r['after'][:60]!r} :: {tag}", flush=True)
    json.dump(res, open(os.path.join(os.environ.get("PFSA_SAMPLE_OUT", "/var/tmp"), f"pfsa_sample_{seed}.json"), "w"), indent=1)
    print("silent and suite passes (candidate escapes):", sum(1 for r in res if r.get("suite") == "pass"))
    print("fired", sum(1 for r in res if r["fired"]), "errors-only", sum(1 for r in res if not r["fired"] and r["errors"]), "silent", sum(1 for r in res if not r["fired"] and not r["errors"]))
