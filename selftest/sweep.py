"""Apply one seeded variant and run every property's quick check on it; print which checks fire (triage aid)."""
import concurrent.futures as cf
import os
import pathlib
import shutil
import subprocess
import sys
import tempfile

HERE = pathlib.Path(__file__).resolve().parent
sys.path.insert(0, str(HERE.parent))
from selftest.mutants import M  # noqa: E402

BASE = pathlib.Path(os.environ.get("PFSA_SELFTEST_BASE", "/repo"))
PY = "/venv/bin/python"
PROPS = [f"C{i:02d}" for i in range(1, 21)]


def sweep(mut):
    tmp = pathlib.Path(tempfile.mkdtemp(prefix="pfsa_sw_", dir="/var/tmp"))
    try:
        shutil.copytree(BASE / "pfhedge", tmp / "pfhedge")
        p = tmp / "pfhedge" / mut["file"]
        s = p.read_text().replace(mut["old"], mut["new"], 1)
        if mut.get("extra"):
            s = s.replace(mut["extra"][0], mut["extra"][1], 1)
        p.write_text(s)
        (tmp / "verif").mkdir()
        kf = os.environ.get("PFSA_KNOWN", str(HERE.parent / "known_findings.json"))
        if kf:
            shutil.copy(kf, tmp / "verif" / "known_findings.json")
        env = dict(os.environ, PFSA_REPO=str(tmp), PFSA_VERIF=str(tmp / "verif"))

        def one(pid):
            r = subprocess.run([PY, "-W", "ignore", "-m", "pfsa", pid, "quick"], cwd=str(HERE.parent), env=env, capture_output=True, text=True, timeout=900)
            return pid, r.returncode, [l for l in r.stdout.splitlines() if l.startswith("  ") or l.startswith("ANALYSIS")][:1]

        with cf.ThreadPoolExecutor(max_workers=10) as ex:
            return [x for x in ex.map(one, PROPS) if x[1] != 0]
    finally:
        shutil.rmtree(tmp, ignore_errors=True)


if __name__ == "__main__":
    for mid in sys.argv[1:]:
        mut = [m for m in M if m["id"] == mid][0]
        res = sweep(mut)
        print(f"{mid} (labelled {mut['property']}, expect {mut['expect']}):", ", ".join(f"{p}:exit{c}" for p, c, _ in res) or "nothing fires")
        for p, c, l in res:
            print("      ", p, (l[0][:200] if l else ""))
