"""Self-test of the checker: apply each seeded variant to a scratch copy and compare the verdict with the expectation."""
import concurrent.futures as cf
import os
import pathlib
import shutil
import subprocess
import sys
import tempfile

HERE = pathlib.Path(__file__).resolve().parent
sys.path.insert(0, str(HERE.parent))
from selftest.mutants import M  # noqa: E402

BASE = pathlib.Path(os.environ.get("PFSA_SELFTEST_BASE", "/repo"))
PY = "/venv/bin/python"


def run_one(mut):
    tmp = pathlib.Path(tempfile.mkdtemp(prefix="pfsa_mut_", dir="/var/tmp"))
    try:
        shutil.copytree(BASE / "pfhedge", tmp / "pfhedge")
        p = tmp / "pfhedge" / mut["file"]
        s = p.read_text()
        if s.count(mut["old"]) < 1:
            return mut, "PATTERN-NOT-FOUND", ""
        s = s.replace(mut["old"], mut["new"], 1)
        if mut.get("extra"):
            if s.count(mut["extra"][0]) < 1:
                return mut, "PATTERN-NOT-FOUND", "extra"
            s = s.replace(mut["extra"][0], mut["extra"][1], 1)
        p.write_text(s)
        try:
            compile(p.read_text(), str(p), "exec")
        except SyntaxError as e:
            return mut, "MUTANT-DOES-NOT-COMPILE", str(e)
        env = dict(os.environ, PFSA_REPO=str(tmp), PFSA_VERIF=str(tmp / "verif"))
        (tmp / "verif").mkdir()
        kf = os.environ.get("PFSA_KNOWN", str(HERE.parent / "known_findings.json"))
        if kf:
            shutil.copy(kf, tmp / "verif" / "known_findings.json")
        r = subprocess.run([PY, "-W", "ignore", "-m", "pfsa", mut["property"], os.environ.get("ST_TIER", "quick")], cwd=str(HERE.parent), env=env, capture_output=True, text=True, timeout=900)
        fired = r.returncode == 1 and f"VIOLATION property={mut['property']}" in r.stdout
        if mut["expect"] == "fire":
            verdict = "ok" if fired else f"MISSED (exit {r.returncode})"
        else:
            verdict = "ok" if r.returncode == 0 else f"FALSE-ALARM (exit {r.returncode})"
        lines = [l for l in r.stdout.splitlines() if l.startswith("  ") or l.startswith("ANALYSIS")]
        return mut, verdict, (lines[0][:220] if lines else "")
    finally:
        shutil.rmtree(tmp, ignore_errors=True)


def main():
    only = set(sys.argv[1:])
    muts = [m for m in M if not only or m["property"] in only or m["id"] in only]
    bad = 0
    with cf.ThreadPoolExecutor(max_workers=16) as ex:
        for mut, verdict, detail in ex.map(run_one, muts):
            flag = "" if verdict == "ok" else "   <<<<<<"
            print(f"{mut['id']:28s} {mut['property']} expect={mut['expect']:6s} {verdict}{flag}")
            if verdict != "ok":
                bad += 1
                print("      ", detail)
    print(f"{len(muts)} variants, {bad} unexpected")
    return 1 if bad else 0


if __name__ == "__main__":
    sys.exit(main())
